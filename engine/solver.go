package main

import (
	"bufio"
	"context"
	"fmt"
	"io"
	"math/rand"
	"os"
	"os/exec"
	"strings"
	"sync"
	"sync/atomic"
	"time"
)

// proc is one persistent SMT solver process spoken to over stdin/stdout.
type proc struct {
	bin  string
	args []string
	cmd  *exec.Cmd
	in   io.WriteCloser
	out  *bufio.Reader
	n    int // queries since start
}

func startProc(bin string, args ...string) *proc {
	p := &proc{bin: bin, args: args}
	p.start()
	return p
}

func (p *proc) start() {
	cmd := exec.Command(p.bin, p.args...)
	in, _ := cmd.StdinPipe()
	outp, _ := cmd.StdoutPipe()
	cmd.Stderr = cmd.Stdout
	if err := cmd.Start(); err != nil {
		fmt.Fprintf(os.Stderr, "cannot start solver %s: %v\n", p.bin, err)
		os.Exit(2)
	}
	p.cmd, p.in, p.out, p.n = cmd, in, bufio.NewReader(outp), 0
	if strings.Contains(p.bin, "cvc5") {
		fmt.Fprintln(in, "(set-logic ALL)")
	}
	fmt.Fprintln(in, "(set-option :produce-models true)")
}

func (p *proc) close() {
	if p == nil || p.cmd == nil {
		return
	}
	p.in.Close()
	done := make(chan struct{})
	go func() { p.cmd.Wait(); close(done) }()
	select {
	case <-done:
	case <-time.After(2 * time.Second):
		p.cmd.Process.Kill()
	}
	p.cmd = nil
}

func (p *proc) restart() {
	if p.cmd != nil {
		p.cmd.Process.Kill()
		p.cmd.Wait()
	}
	p.start()
}

// global solver statistics (all workers)
var (
	statQueries   atomic.Int64
	statSolverNs  atomic.Int64
	statUnknown   atomic.Int64
	statErrors    atomic.Int64
	statCacheHits atomic.Int64
	statRestarts  atomic.Int64
	statHung      atomic.Int64
)

// Solver routes String/Int-sorted queries to z3 5.x (z3-new) and pure bit-vector queries to z3 4.8.12
// (see DESIGN.md 2: 4.8.12 degrades on string queries in long push/pop sessions; it is faster on BV).
type Solver struct {
	str, bvp  *proc
	cache     map[string]string
	timeoutMs int
	single    string  // if set, every query goes to this binary (cross-check runs)
	quick     bool    // short timeout, no retry (set by the caller around one query)
	alt       *Solver // cvc5, for models under soft preferences (long strings: z3 cannot build 64 KiB string models)
}

func newSolver(timeoutMs int) *Solver {
	return &Solver{cache: map[string]string{}, timeoutMs: timeoutMs, single: os.Getenv("VERIF_SOLVER")}
}

func (s *Solver) close() {
	s.str.close()
	s.bvp.close()
	if s.alt != nil {
		s.alt.close()
	}
}

func (s *Solver) altSolver() *Solver {
	if s.alt == nil {
		s.alt = &Solver{cache: map[string]string{}, timeoutMs: 10000, single: "cvc5"}
	}
	return s.alt
}

func (s *Solver) procFor(useStr bool) *proc {
	if s.single != "" {
		if s.str == nil {
			if strings.Contains(s.single, "cvc5") {
				s.str = startProc(s.single, "--incremental", "--strings-exp", "--produce-models", "--lang=smt2", fmt.Sprintf("--tlimit-per=%d", s.timeoutMs))
			} else {
				s.str = startProc(s.single, "-in")
			}
		}
		return s.str
	}
	if useStr {
		if s.str == nil {
			s.str = startProc("z3-new", "-in")
		}
		return s.str
	}
	if s.bvp == nil {
		s.bvp = startProc("z3", "-in")
	}
	return s.bvp
}

// check returns "sat", "unsat" or "unknown"; with wantModel and sat it also returns the values of all
// free symbols of the query plus the extra terms.
func (s *Solver) check(asserts []*Term, wantModel bool, extra []*Term) (string, map[string]string) {
	t0 := time.Now()
	res, m, p := s.checkOnce(asserts, wantModel, extra)
	// z3 degrades on some String queries inside a long push/pop session (same query: 20 ms fresh, 20 s in-session):
	// a slow or undecided answer is retried once on a fresh process.
	if p != nil && (res == "unknown" || time.Since(t0) > 1500*time.Millisecond) && p.n > 1 && !s.quick {
		p.restart()
		statRestarts.Add(1)
		if res == "unknown" {
			statUnknown.Add(-1)
			res, m, _ = s.checkOnce(asserts, wantModel, extra)
		}
	}
	return res, m
}

func (s *Solver) checkOnce(asserts []*Term, wantModel bool, extra []*Term) (string, map[string]string, *proc) {
	all := asserts
	if len(extra) > 0 {
		all = append(append([]*Term{}, asserts...), extra...)
	}
	decls, names, useStr := declsFor(all)
	var b strings.Builder
	b.WriteString(decls)
	for _, a := range asserts {
		fmt.Fprintf(&b, "(assert %s)\n", a)
	}
	key := b.String()
	// lexicographic order on opaque strings (str.<) inside a large path condition is slow in z3 5.1 and in cvc5 alike
	// (tried: routing these queries to cvc5 made the job slower); they get a short timeout, so that a change to /repo
	// which compares opaque names ends in "not decided" within the job's budget instead of crawling
	strOrder := strings.Contains(key, "(str.< ")
	if !wantModel {
		if r, ok := s.cache[key]; ok {
			statCacheHits.Add(1)
			return r, nil, nil
		}
	}
	p := s.procFor(useStr)
	t0 := time.Now()
	var q strings.Builder
	if strings.Contains(p.bin, "cvc5") {
		fmt.Fprintf(&q, "(push)\n")
	} else {
		to := s.timeoutMs
		if (s.quick || strOrder) && to > 3000 {
			to = 3000
		}
		fmt.Fprintf(&q, "(push)\n(set-option :timeout %d)\n", to)
	}
	q.WriteString(key)
	q.WriteString("(check-sat)\n")
	// hard deadline: a solver process that neither answers nor times out by itself (e.g. it is still waiting for
	// input because a literal in the query was not closed) is killed; the query counts as unknown
	hung := false
	wd := time.AfterFunc(time.Duration(3*s.timeoutMs)*time.Millisecond+20*time.Second, func() {
		hung = true
		if os.Getenv("VERIF_DEBUG_SOLVER") != "" {
			fmt.Fprintf(os.Stderr, "solver hung on\n%s\n", q.String())
		}
		p.cmd.Process.Kill()
	})
	defer wd.Stop()
	if d := os.Getenv("VERIF_DEBUG_LASTQ"); d != "" {
		os.WriteFile(d, []byte(p.bin+"\n"+q.String()), 0o644)
	}
	if _, err := io.WriteString(p.in, q.String()); err != nil {
		p.restart()
		statRestarts.Add(1)
		statUnknown.Add(1)
		return "unknown", nil, p
	}
	line, err := p.out.ReadString('\n')
	if err != nil {
		if hung {
			statHung.Add(1)
		}
		p.restart()
		statRestarts.Add(1)
		statUnknown.Add(1)
		return "unknown", nil, p
	}
	res := strings.TrimSpace(line)
	if strings.HasPrefix(res, "(error") || (res != "sat" && res != "unsat" && res != "unknown") {
		// any error line makes the answer inconclusive (never "unsat")
		statErrors.Add(1)
		if os.Getenv("VERIF_DEBUG_SOLVER") != "" {
			fmt.Fprintf(os.Stderr, "solver said %q for\n%s\n", res, q.String())
		}
		p.restart()
		statRestarts.Add(1)
		return "unknown", nil, p
	}
	var model map[string]string
	if res == "sat" && wantModel {
		model = map[string]string{}
		var items []string
		items = append(items, names...)
		for _, e := range extra {
			if e.Op != "const" {
				items = append(items, e.String())
			}
		}
		if len(items) > 0 {
			fmt.Fprintf(p.in, "(get-value (%s))\n(echo \"<<end>>\")\n", strings.Join(items, " "))
			var raw strings.Builder
			for {
				l, err := p.out.ReadString('\n')
				if err != nil {
					p.restart()
					statRestarts.Add(1)
					return "unknown", nil, p
				}
				if strings.Contains(l, "<<end>>") {
					break
				}
				raw.WriteString(l)
			}
			vals, perr := parseGetValue(raw.String(), len(items))
			if perr != nil {
				statErrors.Add(1)
				if os.Getenv("VERIF_DEBUG_SOLVER") != "" {
					fmt.Fprintf(os.Stderr, "cannot parse model: %v\n%s\n", perr, raw.String())
				}
			} else {
				for i, it := range items {
					model[it] = vals[i]
				}
			}
		}
	}
	io.WriteString(p.in, "(pop)\n")
	p.n++
	statQueries.Add(1)
	d := time.Since(t0)
	statSolverNs.Add(int64(d))
	if res == "unknown" {
		statUnknown.Add(1)
	}
	if dir := os.Getenv("VERIF_SLOWQ"); dir != "" && d > 500*time.Millisecond {
		os.WriteFile(fmt.Sprintf("%s/q%d_%dms_%s.smt2", dir, statQueries.Load(), d.Milliseconds(), res), []byte(q.String()+"(pop)\n"), 0o644)
	}
	if !wantModel && res != "unknown" {
		s.cache[key] = res
	}
	if xcheckOn && (res == "sat" || res == "unsat") {
		xcheckRecord(key, res, useStr)
	}
	return res, model, p
}

// parseGetValue parses "((a v) (b v) ...)" into the list of value texts.
func parseGetValue(s string, n int) ([]string, error) {
	s = strings.TrimSpace(s)
	if !strings.HasPrefix(s, "(") {
		return nil, fmt.Errorf("no list")
	}
	i := 1
	var out []string
	skipWS := func() {
		for i < len(s) && (s[i] == ' ' || s[i] == '\n' || s[i] == '\t' || s[i] == '\r') {
			i++
		}
	}
	// reads one s-expression, returns its text
	var sexp func() (string, error)
	sexp = func() (string, error) {
		skipWS()
		if i >= len(s) {
			return "", fmt.Errorf("eof")
		}
		start := i
		switch s[i] {
		case '(':
			i++
			for {
				skipWS()
				if i >= len(s) {
					return "", fmt.Errorf("eof in list")
				}
				if s[i] == ')' {
					i++
					return s[start:i], nil
				}
				if _, err := sexp(); err != nil {
					return "", err
				}
			}
		case '"':
			i++
			for i < len(s) {
				if s[i] == '"' {
					if i+1 < len(s) && s[i+1] == '"' {
						i += 2
						continue
					}
					i++
					return s[start:i], nil
				}
				i++
			}
			return "", fmt.Errorf("eof in string")
		case '|':
			i++
			for i < len(s) && s[i] != '|' {
				i++
			}
			i++
			return s[start:i], nil
		default:
			for i < len(s) && s[i] != ' ' && s[i] != '\n' && s[i] != ')' && s[i] != '(' && s[i] != '\t' {
				i++
			}
			return s[start:i], nil
		}
	}
	for {
		skipWS()
		if i >= len(s) {
			return nil, fmt.Errorf("eof")
		}
		if s[i] == ')' {
			break
		}
		if s[i] != '(' {
			return nil, fmt.Errorf("expected pair at %d", i)
		}
		i++
		if _, err := sexp(); err != nil { // the term
			return nil, err
		}
		v, err := sexp()
		if err != nil {
			return nil, err
		}
		skipWS()
		if i >= len(s) || s[i] != ')' {
			return nil, fmt.Errorf("pair not closed")
		}
		i++
		out = append(out, v)
	}
	if len(out) != n {
		return nil, fmt.Errorf("expected %d values, got %d", n, len(out))
	}
	return out, nil
}

// ---- cross-solver check (thorough tier): a reservoir sample of decided queries is re-decided by the other z3
// and by cvc5 on fresh processes; a sat/unsat disagreement makes the run inconclusive.

type xq struct {
	text   string
	res    string
	useStr bool
}

var (
	xcheckOn   bool
	xcheckMu   sync.Mutex
	xcheckSeen int
	xcheckRes  []xq
	xcheckRng  = rand.New(rand.NewSource(7))
)

const xcheckCap = 240

func xcheckRecord(text, res string, useStr bool) {
	xcheckMu.Lock()
	defer xcheckMu.Unlock()
	xcheckSeen++
	if len(xcheckRes) < xcheckCap {
		xcheckRes = append(xcheckRes, xq{text, res, useStr})
		return
	}
	if i := xcheckRng.Intn(xcheckSeen); i < xcheckCap {
		xcheckRes[i] = xq{text, res, useStr}
	}
}

func runOneShot(bin string, args []string, query string) string {
	ctx, cancel := context.WithTimeout(context.Background(), 30*time.Second)
	defer cancel()
	cmd := exec.CommandContext(ctx, bin, args...)
	cmd.Stdin = strings.NewReader(query)
	out, _ := cmd.CombinedOutput()
	for _, l := range strings.Split(string(out), "\n") {
		l = strings.TrimSpace(l)
		if l == "sat" || l == "unsat" || l == "unknown" {
			return l
		}
	}
	return "unknown"
}

// xcheckRun returns (#queries re-decided, #answers by the second solvers, #disagreements, sample of disagreements).
func xcheckRun() (int, int, int, []string) {
	xcheckMu.Lock()
	qs := append([]xq{}, xcheckRes...)
	xcheckMu.Unlock()
	answered, bad := 0, 0
	var notes []string
	var mu sync.Mutex
	var wg sync.WaitGroup
	sem := make(chan struct{}, 16)
	for _, q := range qs {
		wg.Add(1)
		sem <- struct{}{}
		go func(q xq) {
			defer wg.Done()
			defer func() { <-sem }()
			other := "z3-new"
			if q.useStr {
				other = "z3"
			}
			r1 := runOneShot(other, []string{"-in", "-T:20"}, q.text+"(check-sat)\n")
			r2 := runOneShot("cvc5", []string{"--lang=smt2", "--strings-exp", "--tlimit=20000"}, "(set-logic ALL)\n"+q.text+"(check-sat)\n")
			mu.Lock()
			defer mu.Unlock()
			for _, r := range []string{r1, r2} {
				if r == "sat" || r == "unsat" {
					answered++
					if r != q.res {
						bad++
						if len(notes) < 3 {
							notes = append(notes, fmt.Sprintf("primary %s, other %s on: %s", q.res, r, firstLines(q.text, 40)))
						}
					}
				}
			}
		}(q)
	}
	wg.Wait()
	return len(qs), answered, bad, notes
}
