package main

import (
	"fmt"
	"io"
	"math/rand"
	"os"
	"sort"
	"strings"
	"sync"
	"sync/atomic"
	"time"
)

type AssertCount struct {
	Reached    int `json:"reached"`
	Discharged int `json:"discharged"`
	Violated   int `json:"violated"`
	Unknown    int `json:"inconclusive"`
}

type JobResult struct {
	Job          *Job
	Paths        int
	Decisions    int
	Status       map[string]int
	Details      map[string]int // status:detail for non-ok paths
	Asserts      map[string]*AssertCount
	Reached      map[string]int
	Violations   []Violation
	Samples      []*Sample
	UnsupSamples []*Sample // inputs of paths the engine could not finish (run natively: concolic fallback)
	Funcs        []string
	Stubs        []string
	Queries      int64
	SolverSec    float64
	Unknown      int64
	SolverErrors int64
	Wall         time.Duration
	Capped       bool
	MissingReach []string
}

const maxSamplesKept = 24
const maxViolationsKept = 400

const maxUndecidedPaths = 48

func explore(ld *loaded, j *Job, workers int, seed int64, verbose bool) *JobResult {
	eng := newEngine(ld, j)
	sp := ld.pkgs[pkgPathOf(j.Pkg)]
	if sp == nil {
		panic("package not loaded: " + j.Pkg)
	}
	h := sp.Func(j.Entry)
	if h == nil {
		fmt.Fprintf(os.Stderr, "no harness entry %s in %s\n", j.Entry, j.Pkg)
		return &JobResult{Job: j, Status: map[string]int{"no-entry": 1}, Details: map[string]int{}, Asserts: map[string]*AssertCount{}, Reached: map[string]int{}, MissingReach: j.Expect}
	}
	res := &JobResult{Job: j, Status: map[string]int{}, Details: map[string]int{}, Asserts: map[string]*AssertCount{}, Reached: map[string]int{}}
	q0, s0, u0, e0 := statQueries.Load(), statSolverNs.Load(), statUnknown.Load(), statErrors.Load()
	t0 := time.Now()
	timeout := j.TimeoutMs
	if timeout == 0 {
		timeout = 20000
	}

	var mu sync.Mutex
	cond := sync.NewCond(&mu)
	work := [][]bool{nil}
	active := 0
	rng := rand.New(rand.NewSource(seed))
	sampleEvery := 1 // adaptive reservoir: keep at most maxSamplesKept samples spread over the run

	// watchdog: a path that does not finish (a bug in the cooperative scheduler would hang silently) ends the run
	started := make([]atomic.Int64, workers)
	stopWatch := make(chan struct{})
	go func() {
		for {
			select {
			case <-stopWatch:
				return
			case <-time.After(10 * time.Second):
				for i := range started {
					if t := started[i].Load(); t != 0 && time.Since(time.Unix(0, t)) > 5*time.Minute {
						fmt.Printf("MACHINERY-FAILURE job %s: a path has been running for more than 5 minutes (engine hang); aborting\n", j.Name)
						os.Exit(2)
					}
				}
			}
		}
	}()
	defer close(stopWatch)
	undecided := 0
	var wg sync.WaitGroup
	for w := 0; w < workers; w++ {
		wg.Add(1)
		go func(w int) {
			defer wg.Done()
			solver := newSolver(timeout)
			defer solver.close()
			for {
				mu.Lock()
				for len(work) == 0 && active > 0 {
					cond.Wait()
				}
				overBudget := j.BudgetSec > 0 && time.Since(t0) > time.Duration(j.BudgetSec)*time.Second
				if len(work) == 0 || (j.MaxPaths > 0 && res.Paths >= j.MaxPaths) || overBudget {
					if len(work) > 0 {
						res.Capped = true
						if overBudget {
							res.Details[fmt.Sprintf("capped: wall-clock budget of %d s exhausted, exploration stopped (the job is not decided)", j.BudgetSec)]++
						}
						work = nil
					}
					mu.Unlock()
					cond.Broadcast()
					return
				}
				prefix := work[len(work)-1]
				work = work[:len(work)-1]
				active++
				want := rng.Intn(sampleEvery) == 0
				mu.Unlock()

				started[w].Store(time.Now().UnixNano())
				pr := eng.runPath(solver, h, prefix, want)
				started[w].Store(0)

				mu.Lock()
				active--
				res.Paths++
				res.Decisions += len(pr.decisions)
				res.Status[pr.status]++
				if pr.status != "ok" {
					res.Details[pr.status+": "+pr.detail]++
				}
				for id, a := range pr.asserts {
					c := res.Asserts[id]
					if c == nil {
						c = &AssertCount{}
						res.Asserts[id] = c
					}
					c.Reached += a.reached
					c.Discharged += a.discharged
					c.Violated += a.violated
					c.Unknown += a.unknown
				}
				for id, n := range pr.reached {
					res.Reached[id] += n
				}
				if len(res.Violations) < maxViolationsKept {
					res.Violations = append(res.Violations, pr.violations...)
				}
				if pr.sample != nil && pr.sample.Unsupported {
					res.UnsupSamples = append(res.UnsupSamples, pr.sample)
				} else if pr.sample != nil {
					res.Samples = append(res.Samples, pr.sample)
					if len(res.Samples) > 2*maxSamplesKept {
						// thin out: keep every other sample, sample half as often from now on
						kept := res.Samples[:0]
						for i, s := range res.Samples {
							if i%2 == 0 {
								kept = append(kept, s)
							}
						}
						res.Samples = kept
						sampleEvery *= 2
					}
				}
				work = append(work, pr.pending...)
				if strings.HasPrefix(pr.detail, "solver could not decide") {
					undecided++
					if undecided >= maxUndecidedPaths && len(work) > 0 {
						// the solver gives up on this job's queries systematically: stop here, the job is reported as
						// not decided (capped) instead of spending minutes per remaining path
						res.Capped = true
						res.Details["capped: solver undecided on too many paths, exploration stopped"]++
						work = nil
					}
				}
				if verbose {
					fmt.Printf("path %d: %s %s decisions=%d steps=%d\n", res.Paths, pr.status, pr.detail, len(pr.decisions), pr.steps)
				}
				mu.Unlock()
				cond.Broadcast()
			}
		}(w)
	}
	wg.Wait()
	res.Wall = time.Since(t0)
	res.Queries = statQueries.Load() - q0
	res.SolverSec = float64(statSolverNs.Load()-s0) / 1e9
	res.Unknown = statUnknown.Load() - u0
	res.SolverErrors = statErrors.Load() - e0
	eng.seenMu.Lock()
	for f := range eng.funcsSeen {
		res.Funcs = append(res.Funcs, f)
	}
	for f := range eng.stubsUsed {
		res.Stubs = append(res.Stubs, f)
	}
	eng.seenMu.Unlock()
	sort.Strings(res.Funcs)
	sort.Strings(res.Stubs)
	for _, id := range j.Expect {
		if res.Reached[id] == 0 && (res.Asserts[id] == nil || res.Asserts[id].Reached == 0) {
			res.MissingReach = append(res.MissingReach, id)
		}
	}
	if len(res.Samples) > maxSamplesKept {
		res.Samples = res.Samples[:maxSamplesKept]
	}
	return res
}

func (r *JobResult) totals() (obl, dis, vio, unk int) {
	for _, a := range r.Asserts {
		obl += a.Reached
		dis += a.Discharged
		vio += a.Violated
		unk += a.Unknown
	}
	return
}

func (r *JobResult) print(w io.Writer, verbose bool) {
	obl, dis, vio, unk := r.totals()
	fmt.Fprintf(w, "job %s: paths=%d decisions=%d obligations=%d discharged=%d violated=%d inconclusive=%d queries=%d solver=%.1fs wall=%.1fs\n",
		r.Job, r.Paths, r.Decisions, obl, dis, vio, unk, r.Queries, r.SolverSec, r.Wall.Seconds())
	var st []string
	for k, v := range r.Status {
		st = append(st, fmt.Sprintf("%s=%d", k, v))
	}
	sort.Strings(st)
	fmt.Fprintf(w, "  status: %s\n", strings.Join(st, " "))
	var ds []string
	for k, v := range r.Details {
		ds = append(ds, fmt.Sprintf("%6d  %s", v, k))
	}
	sort.Strings(ds)
	for i, d := range ds {
		if i >= 12 {
			fmt.Fprintf(w, "  ... %d more\n", len(ds)-i)
			break
		}
		fmt.Fprintf(w, "  %s\n", d)
	}
	var ids []string
	for id := range r.Asserts {
		ids = append(ids, id)
	}
	sort.Strings(ids)
	for _, id := range ids {
		a := r.Asserts[id]
		fmt.Fprintf(w, "  assert %-34s reached=%d discharged=%d violated=%d inconclusive=%d\n", id, a.Reached, a.Discharged, a.Violated, a.Unknown)
	}
	if len(r.MissingReach) > 0 {
		fmt.Fprintf(w, "  NOT REACHED (vacuity guard): %s\n", strings.Join(r.MissingReach, ", "))
	}
	seen := map[string]int{}
	for _, v := range r.Violations {
		seen[v.ID]++
		if seen[v.ID] <= 2 && !v.Unknown {
			fmt.Fprintf(w, "  counterexample %s %s\n     model: %s\n", v.ID, v.Detail, modelSummary(v.Model))
		}
	}
	if verbose {
		fmt.Fprintf(w, "  functions encoded (%d):\n    %s\n", len(r.Funcs), strings.Join(r.Funcs, "\n    "))
		fmt.Fprintf(w, "  stubs used (%d):\n    %s\n", len(r.Stubs), strings.Join(r.Stubs, "\n    "))
	}
}

func modelSummary(m map[string]string) string {
	var ks []string
	for k := range m {
		ks = append(ks, k)
	}
	sort.Strings(ks)
	var b strings.Builder
	for _, k := range ks {
		fmt.Fprintf(&b, "%s=%s ", k, m[k])
		if b.Len() > 600 {
			b.WriteString("...")
			break
		}
	}
	return b.String()
}
