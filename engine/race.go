package main

import (
	"fmt"
	"go/token"
	"strings"

	"golang.org/x/tools/go/ssa"
)

// Happens-before data-race detection on the interpreted execution (jobs with Race set).
//
// Every interpreted goroutine carries a vector clock. The synchronisation operations of the Go memory model that the
// engine interprets natively -- go statement, channel send/receive/close (also through select), Mutex/RWMutex,
// WaitGroup, errgroup Go/Wait, context cancellation, sync/atomic -- are the release/acquire points. Every load and
// store that library (repository, std, dependency) code performs through a pointer, every map access, append and
// copy is checked against the last write / the reads of the same cell (FastTrack-style). Two accesses of which at
// least one is a write and which are not ordered by happens-before are a data race *in the schedule the engine
// ran*, which is a legal Go schedule, hence a data race of the program. More happens-before edges than the real
// program has are never introduced on purpose (an over-approximated order could only hide races, and the one place
// where the engine's own mechanism would add such an edge -- the harness cancelling its context from "outside" -- releases
// nothing).
//
// Code of the harness itself (files zz_verif_*: callbacks, reader/writer, file-system model) is *user* code: its own
// memory is not tracked (a user callback called from ten workers at once has to be thread-safe by itself), with one
// exception: a call from library code into the harness writer's Write method is a write access to the writer, because
// an io.Writer is not required to be safe for concurrent use and the library has to serialise its writes.

type writerKey struct{ p Ptr }
type atomicKey struct{ p Ptr }
type poolKey struct{ p Ptr }

type vclock []int32

func (v vclock) get(i int) int32 {
	if i < len(v) {
		return v[i]
	}
	return 0
}

func (v *vclock) set(i int, c int32) {
	for len(*v) <= i {
		*v = append(*v, 0)
	}
	(*v)[i] = c
}

func (v *vclock) join(o vclock) {
	for i, c := range o {
		if c > v.get(i) {
			v.set(i, c)
		}
	}
}

func (v vclock) clone() vclock { return append(vclock(nil), v...) }

type raceAccess struct {
	g    int
	c    int32
	site string
}

type shadowCell struct {
	w     raceAccess // last write (g == -1: none)
	reads []raceAccess
}

type raceState struct {
	cells    map[any]*shadowCell
	syncs    map[any]*vclock
	reports  []string
	seen     map[string]bool
	external bool // a release performed by the harness's environment (verifCtx cancellation): releases nothing
}

func (r *Run) raceOn() bool { return r.eng.race && r.cs != nil && len(r.cs.all) > 1 }

func (r *Run) rs() *raceState {
	if r.race == nil {
		r.race = &raceState{cells: map[any]*shadowCell{}, syncs: map[any]*vclock{}, seen: map[string]bool{}}
	}
	return r.race
}

func (g *gor) tick() { g.vc.set(g.id, g.vc.get(g.id)+1) }

// raceFork: the go statement happens before the start of the new goroutine
func (r *Run) raceFork(parent, child *gor) {
	if !r.eng.race {
		return
	}
	if parent.vc.get(parent.id) == 0 {
		parent.vc.set(parent.id, 1)
	}
	child.vc = parent.vc.clone()
	child.vc.set(child.id, 1)
	parent.tick()
}

func (r *Run) raceRelease(key any) {
	if !r.raceOn() {
		return
	}
	rs := r.rs()
	if rs.external {
		return
	}
	g := r.cs.cur
	v := rs.syncs[key]
	if v == nil {
		v = &vclock{}
		rs.syncs[key] = v
	}
	v.join(g.vc)
	g.tick()
}

func (r *Run) raceAcquire(key any) {
	if !r.raceOn() {
		return
	}
	if v := r.rs().syncs[key]; v != nil {
		r.cs.cur.vc.join(*v)
	}
}

// message clocks: a value in flight carries the clock of its sender
func (r *Run) raceMsgClock() vclock {
	if !r.raceOn() {
		return nil
	}
	g := r.cs.cur
	v := g.vc.clone()
	g.tick()
	return v
}

func (r *Run) raceJoin(v vclock) {
	if !r.raceOn() || v == nil {
		return
	}
	r.cs.cur.vc.join(v)
}

// raceJoinInto: the goroutine g (parked) receives the clock v (used when the *other* side completes a rendezvous)
func (r *Run) raceJoinInto(g *gor, v vclock) {
	if !r.raceOn() || v == nil || g == nil {
		return
	}
	g.vc.join(v)
}

func (fr *frame) site(instr ssa.Instruction) string {
	pos := token.NoPos
	if instr != nil {
		pos = instr.Pos()
	}
	if pos == token.NoPos && fr != nil && fr.fn != nil {
		pos = fr.fn.Pos()
	}
	where := ""
	if fr != nil && fr.fn != nil {
		where = fr.fn.String()
		if pos != token.NoPos {
			p := fr.fn.Prog.Fset.Position(pos)
			f := p.Filename
			if i := strings.LastIndex(f, "/"); i >= 0 {
				f = f[i+1:]
			}
			where += fmt.Sprintf(" (%s:%d)", f, p.Line)
		}
	}
	return where
}

// raceAccess checks and records one access of the running goroutine to the location key.
func (r *Run) raceAccess(key any, write bool, fr *frame, instr ssa.Instruction) {
	if !r.raceOn() || key == nil {
		return
	}
	if fr != nil && fr.user {
		return
	}
	rs := r.rs()
	g := r.cs.cur
	if g.vc.get(g.id) == 0 {
		g.vc.set(g.id, 1)
	}
	cell := rs.cells[key]
	if cell == nil {
		cell = &shadowCell{w: raceAccess{g: -1}}
		rs.cells[key] = cell
	}
	me := raceAccess{g: g.id, c: g.vc.get(g.id)}
	conflict := func(o raceAccess, okind string) {
		if o.g < 0 || o.g == g.id || o.c <= g.vc.get(o.g) {
			return
		}
		kind := "read"
		if write {
			kind = "write"
		}
		me.site = fr.site(instr)
		msg := fmt.Sprintf("%s by goroutine %d at %s is not ordered with the earlier %s by goroutine %d at %s", kind, g.id, me.site, okind, o.g, o.site)
		k := me.site + "|" + o.site
		if !rs.seen[k] && len(rs.reports) < 4 {
			rs.seen[k] = true
			rs.reports = append(rs.reports, msg)
		}
	}
	conflict(cell.w, "write")
	if write {
		for _, rd := range cell.reads {
			conflict(rd, "read")
		}
		me.site = fr.site(instr)
		cell.w = me
		cell.reads = cell.reads[:0]
		return
	}
	me.site = fr.site(instr)
	for i := range cell.reads {
		if cell.reads[i].g == g.id {
			cell.reads[i] = me
			return
		}
	}
	cell.reads = append(cell.reads, me)
}

// raceValue: a load or store of a whole struct / array touches every element cell
func (r *Run) raceCell(p Ptr, write bool, fr *frame, instr ssa.Instruction) {
	if !r.raceOn() || p == nil || (fr != nil && fr.user) {
		return
	}
	r.raceAccess(p, write, fr, instr)
	switch v := (*p).(type) {
	case Struct:
		for i := range v {
			r.raceCell(&v[i], write, fr, instr)
		}
	case Array:
		if len(v) <= 64 {
			for i := range v {
				r.raceCell(&v[i], write, fr, instr)
			}
		}
	}
}

// fnIsHarness: functions defined in the overlay files of the harness
func (e *Engine) fnClass(fn *ssa.Function) int {
	const (
		other = iota
		harness
		repo
	)
	f := fn
	for f.Parent() != nil {
		f = f.Parent()
	}
	if o := f.Origin(); o != nil {
		f = o
	}
	if f.Pkg == nil || f.Pkg.Pkg == nil {
		return other
	}
	path := f.Pkg.Pkg.Path()
	if !strings.HasPrefix(path, modPath) {
		return other
	}
	if strings.Contains(path, "zz_verif") {
		// the regenerated tinywasm variant: repository code
		return repo
	}
	pos := fn.Pos()
	if pos == token.NoPos {
		pos = f.Pos()
	}
	if pos == token.NoPos {
		return other
	}
	name := fn.Prog.Fset.Position(pos).Filename
	if i := strings.LastIndex(name, "/"); i >= 0 {
		name = name[i+1:]
	}
	if strings.HasPrefix(name, "zz_verif_") {
		return harness
	}
	return repo
}
