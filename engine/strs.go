package main

import "strings"

// strings.Index / Contains / Replace / ReplaceAll. The real bodies end in assembly (internal/bytealg) and in
// byte-slice code of symbolic length; here:
//   - atom-free operands (literals and symbolic bytes): a search by case split, position by position
//   - operands with opaque atoms: the SMT-LIB string functions str.indexof / str.contains / str.replace(_all),
//     which have exactly Go's semantics for a non-empty pattern (first occurrence / all non-overlapping
//     occurrences from the left)

// matchAt decides (branching if symbolic) whether sub occurs in s at byte i.
func (r *Run) matchAt(s, sub []*Term, i int) bool {
	var conj *Term
	for j := range sub {
		a, b := s[i+j], sub[j]
		if a.Op == "bvlit" && b.Op == "bvlit" {
			if a.Val != b.Val {
				return false
			}
			continue
		}
		e := mkEq(a, b)
		if conj == nil {
			conj = e
		} else {
			conj = mk("and", sortBool, conj, e)
		}
	}
	if conj == nil {
		return true
	}
	return r.branch(conj)
}

func (r *Run) indexBytes(s, sub []*Term, from int) int {
	for i := from; i+len(sub) <= len(s); i++ {
		if r.matchAt(s, sub, i) {
			return i
		}
	}
	return -1
}

// nonEmpty decides (branching if needed) that an atom-carrying string is not empty.
func (r *Run) strIsEmpty(s StrV) bool {
	if !s.hasAtom() {
		return len(s.bytesTerms()) == 0
	}
	for _, g := range s.Segs {
		if g.Atom == nil {
			return false // a literal or byte segment: at least one byte
		}
	}
	return r.branch(mkEq(s.term(), mkStrLit("")))
}

func (e *Engine) registerStringsIntrinsics() {
	in := e.intrinsics
	in["strings.Index"] = func(r *Run, fr *frame, a []Value) Value {
		s, sub := a[0].(StrV), a[1].(StrV)
		if !s.hasAtom() && !sub.hasAtom() {
			return IntV{C: uint64(int64(r.indexBytes(s.bytesTerms(), sub.bytesTerms(), 0)))}
		}
		return IntV{S: mk("str.indexof", sortInt, s.term(), sub.term(), mkIntLit(0))}
	}
	in["strings.Contains"] = func(r *Run, fr *frame, a []Value) Value {
		s, sub := a[0].(StrV), a[1].(StrV)
		if !s.hasAtom() && !sub.hasAtom() {
			return BoolV{C: r.indexBytes(s.bytesTerms(), sub.bytesTerms(), 0) >= 0}
		}
		return BoolV{S: mk("str.contains", sortBool, s.term(), sub.term())}
	}
	replace := func(r *Run, s, old, nw StrV, n int) Value {
		if n == 0 {
			return s
		}
		if !s.hasAtom() && !old.hasAtom() {
			sb, ob := s.bytesTerms(), old.bytesTerms()
			if len(ob) == 0 {
				panic(unsupported("strings.Replace with an empty pattern"))
			}
			out := StrV{}
			pos, done := 0, 0
			for n < 0 || done < n {
				i := r.indexBytes(sb, ob, pos)
				if i < 0 {
					break
				}
				out = concatStr(concatStr(out, strFromBytes(sb[pos:i])), nw)
				pos = i + len(ob)
				done++
			}
			return concatStr(out, strFromBytes(sb[pos:]))
		}
		if r.strIsEmpty(old) {
			panic(unsupported("strings.Replace with an empty pattern"))
		}
		if n == 1 {
			if v, ok := r.replaceInPath(s, old, nw); ok {
				return v
			}
		}
		op := "str.replace_all"
		if n == 1 {
			op = "str.replace"
		} else if n > 1 {
			panic(unsupported("strings.Replace on opaque strings with n=%d", n))
		}
		t := r.fresh("repl", sortStr)
		r.pc = append(r.pc, mkEq(t, mk(op, sortStr, s.term(), old.term(), nw.term())))
		return StrV{Segs: []Seg{{Atom: t}}}
	}
	in["strings.Replace"] = func(r *Run, fr *frame, a []Value) Value {
		return replace(r, a[0].(StrV), a[1].(StrV), a[2].(StrV), int(int64(r.concreteInt(a[3], "strings.Replace n"))))
	}
	in["strings.ReplaceAll"] = func(r *Run, fr *frame, a []Value) Value {
		return replace(r, a[0].(StrV), a[1].(StrV), a[2].(StrV), -1)
	}
}

// replaceInPath: strings.Replace(s, old, nw, 1) where s is a '/'-separated list of elements and old cannot contain
// '/': the first occurrence lies inside the first element that contains old, so the search is a case split over
// the elements (str.contains on single elements) and only that element is rewritten; an element that is old itself
// needs no solver at all.
func (r *Run) replaceInPath(s, old, nw StrV) (Value, bool) {
	elems, abs := splitElems(s)
	rebuild := func(el []StrV) StrV {
		out := StrV{}
		if abs {
			out = strLit("/")
		}
		for i, e := range el {
			if i > 0 {
				out = concatStr(out, strLit("/"))
			}
			out = concatStr(out, e)
		}
		return out
	}
	if len(elems) < 2 || rebuild(elems).term().String() != s.term().String() {
		return nil, false
	}
	if r.feasible(mk("str.contains", sortBool, old.term(), mkStrLit("/"))) {
		return nil, false
	}
	for i, e := range elems {
		same := e.term().String() == old.term().String()
		if !same {
			var c *Term
			if e.isConcrete() && old.isConcrete() {
				if !strings.Contains(e.concrete(), old.concrete()) {
					continue
				}
			} else {
				c = mk("str.contains", sortBool, e.term(), old.term())
				if !r.branch(c) {
					continue
				}
			}
		}
		ne := append([]StrV{}, elems...)
		switch {
		case same:
			ne[i] = nw
		case e.isConcrete() && old.isConcrete():
			ne[i] = strLit(strings.Replace(e.concrete(), old.concrete(), nw.concrete(), 1))
			if !nw.isConcrete() {
				return nil, false
			}
		default:
			t := r.fresh("repl", sortStr)
			r.pc = append(r.pc, mkEq(t, mk("str.replace", sortStr, e.term(), old.term(), nw.term())))
			ne[i] = StrV{Segs: []Seg{{Atom: t}}}
		}
		// an emptied element leaves its separators in place ("a//c"): rebuild keeps them
		return rebuild(ne), true
	}
	return s, true
}
