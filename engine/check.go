package main

import (
	"bufio"
	"encoding/json"
	"fmt"
	"os"
	"path/filepath"
	"sort"
	"strconv"
	"strings"
	"time"
)

type knownFinding struct {
	Property string
	ID       string // assertion id incl. cause class
	Text     string
}

// loadKnown reads /verif/known_findings.txt: lines "known: property=<P> id=<assertion id> <description>".
// "fixed:" lines are documentation only and suppress nothing.
func loadKnown() []knownFinding {
	f, err := os.Open(filepath.Join(verifDir, "known_findings.txt"))
	if err != nil {
		return nil
	}
	defer f.Close()
	var out []knownFinding
	sc := bufio.NewScanner(f)
	for sc.Scan() {
		line := strings.TrimSpace(sc.Text())
		if !strings.HasPrefix(line, "known:") {
			continue
		}
		k := knownFinding{}
		rest := strings.Fields(strings.TrimPrefix(line, "known:"))
		var desc []string
		for _, w := range rest {
			switch {
			case strings.HasPrefix(w, "property=") && k.Property == "":
				k.Property = strings.TrimPrefix(w, "property=")
			case strings.HasPrefix(w, "id=") && k.ID == "":
				k.ID = strings.TrimPrefix(w, "id=")
			default:
				desc = append(desc, w)
			}
		}
		k.Text = strings.Join(desc, " ")
		if k.Property != "" && k.ID != "" {
			out = append(out, k)
		}
	}
	return out
}

type evidence struct {
	PropertyID  string         `json:"property_id"`
	Tier        string         `json:"tier"`
	Seed        int64          `json:"seed"`
	Level       string         `json:"level"`
	Coverage    map[string]any `json:"coverage"`
	Assumptions []string       `json:"assumptions"`
	WallS       float64        `json:"wall_s"`
	Violations  int            `json:"violations"`
}

func seedFromEnv() int64 {
	if s := os.Getenv("VERIF_SEED"); s != "" {
		if n, err := strconv.ParseInt(s, 10, 64); err == nil {
			return n
		}
	}
	return 1
}

func findCheck(id string) *Check {
	for _, c := range allChecks() {
		if c.ID == id {
			return c
		}
	}
	return nil
}

func runCheck(id, tier string) int {
	t0 := time.Now()
	c := findCheck(id)
	if c == nil {
		fmt.Fprintf(os.Stderr, "no check registered for %s\n", id)
		return 2
	}
	if tier != "quick" && tier != "thorough" {
		usage()
	}
	jobs := c.Quick
	if tier == "thorough" && len(c.Thorough) > 0 {
		jobs = c.Thorough
	}
	seed := seedFromEnv()
	workers := 16
	if s := os.Getenv("VERIF_WORKERS"); s != "" {
		if n, err := strconv.Atoi(s); err == nil && n > 0 {
			workers = n
		}
	}
	wasm := false
	for _, j := range jobs {
		if j.Wasm {
			wasm = true
		}
	}
	ld, err := load(c, wasm)
	if err != nil {
		fmt.Fprintln(os.Stderr, err)
		fmt.Printf("MACHINERY-FAILURE property=%s cannot encode /repo: %v\n", id, err)
		return 2
	}
	fmt.Printf("[%s %s] loaded and built SSA of /repo working tree + harness overlay in %.1fs\n", id, tier, ld.loadDur.Seconds())

	// native replay binaries are compiled while the exploration runs
	type rpRes struct {
		rp  *replayer
		err error
	}
	rpc := make(chan rpRes, 1)
	nativePkgs := map[string]bool{}
	for _, j := range jobs {
		if !j.NoNative {
			nativePkgs[j.Pkg] = true
		}
	}
	go func() {
		rp, err := newReplayer(c, ld, nativePkgs)
		rpc <- rpRes{rp, err}
	}()

	xcheckOn = tier == "thorough" || os.Getenv("VERIF_XCHECK") != ""
	var rp *replayer
	var results []*JobResult
	for i := range jobs {
		j := &jobs[i]
		if j.BudgetSec == 0 {
			// registered bounds finish well inside these budgets on the unchanged tree; a change to /repo that makes
			// the solver crawl must not turn a check into an hour-long run: the job is then reported as not decided
			j.BudgetSec = 480
			if tier == "thorough" {
				j.BudgetSec = 7200
			}
		}
		res := explore(ld, j, workers, seed+int64(i), false)
		res.print(os.Stdout, false)
		results = append(results, res)
	}

	var cr *cliReplayer
	for _, j := range jobs {
		if j.Pkg == "main" && cr == nil {
			var err error
			cr, err = newCLIReplayer()
			if err != nil {
				fmt.Fprintln(os.Stderr, err)
				fmt.Printf("MACHINERY-FAILURE property=%s cannot build the CLI replay: %v\n", id, firstLines(err.Error(), 3))
				return 2
			}
			defer cr.close()
		}
	}
	native := func(j *Job, raw map[string]string, aid string) *NativeResult {
		if j.Pkg == "main" {
			return cr.run(j, raw, aid)
		}
		if strings.HasPrefix(aid, "race@") {
			return rp.runRace(j, raw)
		}
		return rp.run(j, raw)
	}
	rr := <-rpc
	if rr.err != nil {
		fmt.Fprintln(os.Stderr, rr.err)
		fmt.Printf("MACHINERY-FAILURE property=%s cannot build the native replay harness: %v\n", id, firstLines(rr.err.Error(), 3))
		return 2
	}
	rp = rr.rp
	defer rp.close()

	known := loadKnown()
	isKnown := func(aid string) *knownFinding {
		for i := range known {
			if known[i].Property == id && known[i].ID == aid {
				return &known[i]
			}
		}
		return nil
	}

	exit := 0
	machinery := false
	replays := 0
	disagreements := 0
	spurious := 0
	nViol := 0
	knownSeen := map[string]bool{}
	var violLines []string
	os.MkdirAll(filepath.Join(evidenceBase(), "evidence", "replay"), 0o755)
	// stale counterexample files of this property are removed: the directory reflects the last run
	if old, _ := filepath.Glob(filepath.Join(evidenceBase(), "evidence", "replay", id+"-*.json")); old != nil {
		for _, f := range old {
			os.Remove(f)
		}
	}
	cexN := 0
	writeCex := func(j *Job, aid string, raw map[string]string) string {
		m, err := concretize(j, raw)
		if err != nil {
			return ""
		}
		m.Property, m.Assertion, m.Job, m.Files = id, aid, j.Name, c.Files
		m.RaceConfirm = j.RaceConfirm
		cexN++
		p := filepath.Join(evidenceBase(), "evidence", "replay", fmt.Sprintf("%s-%d.json", id, cexN))
		b, _ := json.MarshalIndent(m, "", " ")
		os.WriteFile(p, b, 0o644)
		return p
	}

	witnessPerJob := 3
	cexPerID := 6
	if tier == "thorough" {
		witnessPerJob = 10
		cexPerID = 10
	}
	if s := os.Getenv("VERIF_WITNESS"); s != "" {
		if n, err := strconv.Atoi(s); err == nil && n > 0 {
			witnessPerJob = n // development: many witness replays to flush out infidelities of the encoding
		}
	}
	var sampleOut []any
	for _, res := range results {
		j := res.Job
		if res.Capped {
			fmt.Printf("MACHINERY-FAILURE property=%s job %s: exploration stopped before the bound was covered (budget / undecided paths); the bound is not decided\n", id, j.Name)
			machinery = true
		}
		if len(res.MissingReach) > 0 && len(res.Violations) == 0 {
			fmt.Printf("MACHINERY-FAILURE property=%s job %s never reached %v (vacuous harness)\n", id, j.Name, res.MissingReach)
			machinery = true
		}
		// --- witness replay: engine prediction vs real build on sampled completed paths ---
		if !j.NoNative || j.Pkg == "main" {
			n := 0
			// sampled completed paths, then the inputs of paths the engine could not finish (concolic fallback: the
			// path stays undecided, but a failure of the real build on its inputs is a concrete violation)
			for _, s := range append(append([]*Sample{}, res.Samples[:min(len(res.Samples), witnessPerJob)]...), res.UnsupSamples[:min(len(res.UnsupSamples), 8)]...) {
				n++
				out := native(j, s.Model, "")
				replays++
				if s.Unsupported && out.Err == "" && !out.AssumeFailed && len(out.Failed) == 0 && out.Panic == "" && out.Crash == "" && !out.Timeout {
					continue // nothing to compare: the engine made no prediction for this path
				}
				if s.Unsupported && (out.Err != "" || out.AssumeFailed) {
					continue
				}
				if d := compareObserved(s, out); d != "" {
					if len(out.Failed) > 0 || out.Panic != "" || out.Crash != "" || out.Timeout {
						// the real build violates an assertion (or crashes) on an input the encoding accepted:
						// a concrete counterexample on the real code, and a sign that a stub hides behaviour.
						aid := "witness"
						if len(out.Failed) > 0 {
							aid = out.Failed[0]
						} else if out.Panic != "" || out.Crash != "" {
							aid = "panic@" + out.Context
						} else {
							aid = "deadlock@" + out.Context
						}
						if k := isKnown(aid); k != nil {
							knownSeen[aid] = true
							continue
						}
						p := writeCex(j, aid, s.Model)
						violLines = append(violLines, fmt.Sprintf("VIOLATION property=%s replay=%s", id, p))
						fmt.Printf("  witness replay of job %s: real build fails %s where the encoding passed: %s\n", j.Name, aid, out.summary())
						nViol++
						exit = 1
					} else {
						disagreements++
						fmt.Printf("  TRANSLATOR DISAGREEMENT job %s: %s\n", j.Name, d)
					}
				}
			}
		}
		// --- counterexamples: replay before reporting ---
		byID := map[string][]Violation{}
		var order []string
		for _, v := range res.Violations {
			if v.Unknown {
				continue
			}
			if _, ok := byID[v.ID]; !ok {
				order = append(order, v.ID)
			}
			byID[v.ID] = append(byID[v.ID], v)
		}
		sort.Strings(order)
		for _, aid := range order {
			vs := byID[aid]
			confirmed := false
			var cexPath string
			tried := 0
			// candidates are spread over the list (different paths = different shapes / classes of names), not the first few
			cand := vs
			if len(vs) > cexPerID {
				cand = nil
				step := float64(len(vs)) / float64(cexPerID)
				for k := 0; k < cexPerID; k++ {
					cand = append(cand, vs[int(float64(k)*step)])
				}
			}
			for _, v := range cand {
				if tried >= cexPerID {
					break
				}
				if v.Model == nil {
					continue
				}
				tried++
				if j.NoNative && j.Pkg != "main" {
					confirmed = true
					cexPath = writeCex(j, aid, v.Model)
					break
				}
				out := native(j, v.Model, aid)
				replays++
				if confirms(out, aid) {
					confirmed = true
					if isKnown(aid) == nil {
						cexPath = writeCex(j, aid, v.Model)
					}
					break
				}
				fmt.Printf("  counterexample for %s not reproduced natively: %s\n", aid, out.summary())
			}
			if !confirmed && j.Confirm != "" && scheduleDependent(aid) {
				// the model alone does not force the schedule on the real runtime: amplified native confirmation
				for try := 0; try < 5 && !confirmed; try++ {
					cj := *j
					cj.Entry = j.Confirm
					if strings.HasPrefix(aid, "race@") {
						cj.Entry = "VerifRaceStress"
						if j.RaceConfirm != "" {
							cj.Entry = j.RaceConfirm
						}
					}
					var out *NativeResult
					if strings.HasPrefix(aid, "race@") {
						out = rp.runRace(&cj, map[string]string{})
					} else {
						out = rp.run(&cj, map[string]string{})
					}
					replays++
					if confirms(out, aid) {
						confirmed = true
						if isKnown(aid) == nil && len(vs) > 0 && vs[0].Model != nil {
							cexPath = writeCex(&cj, aid, vs[0].Model)
						}
						fmt.Printf("  %s: reproduced on the real runtime by the amplified scenario %s (try %d): %s\n", aid, cj.Entry, try+1, out.summary())
					}
				}
			}
			if !confirmed {
				spurious++
				fmt.Printf("  SPURIOUS %s: %d solver counterexample(s), none reproduced on the real build (%d tried)\n", aid, len(vs), tried)
				continue
			}
			if k := isKnown(aid); k != nil {
				knownSeen[aid] = true
				continue
			}
			nViol++
			exit = 1
			violLines = append(violLines, fmt.Sprintf("VIOLATION property=%s replay=%s", id, cexPath))
			fmt.Printf("  confirmed on the real build: %s (%d counterexample paths in job %s)\n", aid, len(vs), j.Name)
		}
		for i, s := range res.Samples {
			if i >= 3 {
				break
			}
			sampleOut = append(sampleOut, map[string]any{"job": j.Name, "model": readableModel(s.Model), "notes": s.Notes, "observed": s.Observed})
		}
	}
	// --- contract validation of stubs against the real libraries (concrete, native-only entries) ---
	for _, entry := range c.NativeContracts {
		cj := Job{Name: entry, Pkg: "gtree", Entry: entry}
		out := rp.run(&cj, map[string]string{})
		replays++
		if out.Err != "" {
			fmt.Printf("MACHINERY-FAILURE property=%s contract validation %s could not run: %s\n", id, entry, firstLines(out.Err, 2))
			machinery = true
			continue
		}
		var failed []string
		failed = append(failed, out.Failed...)
		if out.Panic != "" || out.Crash != "" || out.Timeout {
			failed = append(failed, "panic@"+entry)
		}
		seenF := map[string]bool{}
		for _, aid := range failed {
			if seenF[aid] {
				continue
			}
			seenF[aid] = true
			if k := isKnown(aid); k != nil {
				knownSeen[aid] = true
				continue
			}
			p := writeCex(&cj, aid, map[string]string{})
			violLines = append(violLines, fmt.Sprintf("VIOLATION property=%s replay=%s", id, p))
			fmt.Printf("  contract validation %s: the real build fails %s: %s\n", entry, aid, out.summary())
			nViol++
			exit = 1
		}
	}
	var kids []string
	for aid := range knownSeen {
		kids = append(kids, aid)
	}
	sort.Strings(kids)
	for _, aid := range kids {
		k := isKnown(aid)
		fmt.Printf("KNOWN-FINDING: property=%s %s %s\n", id, aid, k.Text)
	}
	for _, l := range violLines {
		fmt.Println(l)
	}

	// --- evidence ---
	cov := map[string]any{}
	states, trans, obl, dis, unk, unsup := 0, 0, 0, 0, 0, 0
	var queries int64
	solverSec := 0.0
	funcs := map[string]bool{}
	stubs := map[string]bool{}
	var jobsOut []any
	perAssert := map[string]*AssertCount{}
	reach := map[string]int{}
	for _, res := range results {
		states += res.Paths
		trans += res.Decisions
		o, d, _, u := res.totals()
		obl += o
		dis += d
		unk += u
		unsup += res.Status["unsupported"]
		queries += res.Queries
		solverSec += res.SolverSec
		for _, f := range res.Funcs {
			funcs[f] = true
		}
		for _, f := range res.Stubs {
			stubs[f] = true
		}
		for aid, a := range res.Asserts {
			p := perAssert[aid]
			if p == nil {
				p = &AssertCount{}
				perAssert[aid] = p
			}
			p.Reached += a.Reached
			p.Discharged += a.Discharged
			p.Violated += a.Violated
			p.Unknown += a.Unknown
		}
		for k, v := range res.Reached {
			reach[k] += v
		}
		jobsOut = append(jobsOut, map[string]any{"job": res.Job.String(), "paths": res.Paths, "status": res.Status, "non_ok_paths": res.Details,
			"queries": res.Queries, "solver_s": round1(res.SolverSec), "wall_s": round1(res.Wall.Seconds()), "capped": res.Capped})
	}
	if len(sampleOut) == 0 {
		sampleOut = append(sampleOut, "no completed path was sampled")
	}
	cov["states"] = states
	cov["transitions"] = trans
	cov["traces_validated_against_impl"] = replays
	cov["samples"] = sampleOut
	cov["obligations"] = obl
	cov["discharged"] = dis
	cov["inconclusive"] = unk
	cov["unsupported_paths"] = unsup
	cov["per_assertion"] = perAssert
	cov["reachability_witnesses"] = reach
	cov["queries"] = queries
	cov["solver_time_s"] = round1(solverSec)
	cov["solver_versions"] = map[string]string{"strings_and_ints": "z3-new (Z3 5.1.0)", "bit_vectors": "z3 (Z3 4.8.12)"}
	if xcheckOn {
		nq, ans, bad, notes := xcheckRun()
		cov["cross_solver"] = map[string]any{"queries_sampled": nq, "answers_by_second_solvers": ans, "disagreements": bad,
			"solvers": "String/Int queries: z3 5.1 primary, re-decided by z3 4.8.12 and cvc5 1.0; bit-vector queries: z3 4.8.12 primary, re-decided by z3 5.1 and cvc5 1.0 (fresh process per query)"}
		fmt.Printf("  cross-solver check: %d sampled queries, %d answers by the second solvers, %d disagreements\n", nq, ans, bad)
		for _, n := range notes {
			fmt.Printf("  CROSS-SOLVER DISAGREEMENT %s\n", n)
		}
		if bad > 0 {
			machinery = true
		}
	}
	cov["functions_encoded"] = sortedSet(funcs)
	cov["stubs_used"] = sortedSet(stubs)
	cov["jobs"] = jobsOut
	cov["bounds"] = c.Bounds
	cov["spurious_counterexamples"] = spurious
	cov["translator_disagreements"] = disagreements
	cov["known_findings_seen"] = kids
	cov["exhaustive"] = false
	cov["explanation"] = "bounded symbolic execution of the SSA of /repo's working tree (regenerated this run); states = completed symbolic paths, transitions = solver-decided branch decisions; every assertion is discharged by an unsat answer for PC ∧ ¬assertion or reported with a model that is replayed on the real build"
	ev := evidence{PropertyID: id, Tier: tier, Seed: seed, Level: "model_checking", Coverage: cov, Assumptions: c.Assume, WallS: round1(time.Since(t0).Seconds()), Violations: nViol}
	b, _ := json.MarshalIndent(ev, "", " ")
	os.MkdirAll(filepath.Join(evidenceBase(), "evidence"), 0o755)
	if err := os.WriteFile(filepath.Join(evidenceBase(), "evidence", id+".json"), b, 0o644); err != nil {
		fmt.Fprintln(os.Stderr, err)
		return 2
	}
	fmt.Printf("[%s %s] paths=%d obligations=%d discharged=%d inconclusive=%d unsupported_paths=%d replays=%d spurious=%d violations=%d known=%d wall=%.1fs\n",
		id, tier, states, obl, dis, unk, unsup, replays, spurious, nViol, len(kids), time.Since(t0).Seconds())
	if exit == 1 {
		return 1
	}
	if machinery || disagreements > 0 {
		return 2
	}
	if unk > 0 || unsup > 0 {
		fmt.Printf("MACHINERY-FAILURE property=%s: %d inconclusive obligations, %d unsupported paths: the bound was not decided (nothing is reported as held)\n", id, unk, unsup)
		return 2
	}
	return 0
}

func round1(f float64) float64 { return float64(int(f*10+0.5)) / 10 }

func sortedSet(m map[string]bool) []string {
	var out []string
	for k := range m {
		out = append(out, k)
	}
	sort.Strings(out)
	return out
}

// readableModel renders solver values for the evidence file (strings decoded where printable).
func readableModel(m map[string]string) map[string]string {
	out := map[string]string{}
	for k, v := range m {
		if b, ok := decodeSMTString(v); ok {
			out[k] = strconv.QuoteToASCII(string(b))
		} else if n, ok := decodeSMTBV(v); ok {
			out[k] = fmt.Sprint(n)
		} else {
			out[k] = v
		}
	}
	return out
}

// scheduleDependent: assertion ids whose counterexamples depend on the goroutine schedule, not only on the input.
func scheduleDependent(aid string) bool {
	return strings.Contains(aid, "noleak") || strings.HasPrefix(aid, "deadlock@") || strings.HasPrefix(aid, "race@") || strings.HasPrefix(aid, "C13.conc") || strings.HasPrefix(aid, "C11.stops") || strings.Contains(aid, "ctxerr") || strings.HasPrefix(aid, "C10.same/") || strings.HasPrefix(aid, "C10.big.")
}

// evidenceBase: /verif, except in development runs against a scratch copy (VERIF_REPO), whose evidence and
// counterexample files must not overwrite the ones of the registered checks.
func evidenceBase() string {
	if os.Getenv("VERIF_REPO") != "" {
		d := filepath.Join(os.TempDir(), "verif-dev")
		os.MkdirAll(d, 0o755)
		return d
	}
	return verifDir
}
