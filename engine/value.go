package main

import (
	"fmt"
	"go/constant"
	"go/types"
	"strings"

	"golang.org/x/tools/go/ssa"
)

type Value interface{}

// IntV: any integer type. C holds the two's-complement value truncated to the
// type's width (sign-extended to 64 bits for signed types); S != nil => symbolic.
type IntV struct {
	C uint64
	S *Term
}

type BoolV struct {
	C bool
	S *Term
}

// Seg is one segment of a string: literal bytes, one symbolic byte, or an opaque atom.
type Seg struct {
	Lit  string
	Byte *Term // BV8
	Atom *Term // String-sorted
}

type StrV struct{ Segs []Seg }

type Struct []Value
type Array []Value
type Tuple []Value

// Slice value. nil slice: Data == nil.
type SliceV struct {
	Data []Value
	Nil  bool
}

// BytesOf is the []byte view of a string produced by []byte(s); supports only
// conversion back and len.
type BytesOf struct{ S StrV }

type Iface struct {
	T types.Type // nil => nil interface
	V Value
}

type Closure struct {
	Fn  *ssa.Function
	Env []Value
}

type Builtin struct{ Name string }

type MapV struct {
	Keys []Value
	Vals []Value
}

type Ptr = *Value

func strLit(s string) StrV {
	if s == "" {
		return StrV{}
	}
	return StrV{Segs: []Seg{{Lit: s}}}
}

func (s StrV) isConcrete() bool {
	for _, g := range s.Segs {
		if g.Byte != nil || g.Atom != nil {
			return false
		}
	}
	return true
}

func (s StrV) hasAtom() bool {
	for _, g := range s.Segs {
		if g.Atom != nil {
			return true
		}
	}
	return false
}

func (s StrV) concrete() string {
	var b strings.Builder
	for _, g := range s.Segs {
		b.WriteString(g.Lit)
	}
	return b.String()
}

func concatStr(a, b StrV) StrV {
	segs := make([]Seg, 0, len(a.Segs)+len(b.Segs))
	segs = append(segs, a.Segs...)
	for _, g := range b.Segs {
		if n := len(segs); n > 0 && g.Byte == nil && g.Atom == nil && segs[n-1].Byte == nil && segs[n-1].Atom == nil {
			segs[n-1] = Seg{Lit: segs[n-1].Lit + g.Lit}
			continue
		}
		segs = append(segs, g)
	}
	return StrV{Segs: segs}
}

// term renders the string as a String-sorted SMT term (atoms + literals only).
func (s StrV) term() *Term {
	if len(s.Segs) == 0 {
		return mkStrLit("")
	}
	var args []*Term
	for _, g := range s.Segs {
		switch {
		case g.Atom != nil:
			args = append(args, g.Atom)
		case g.Byte != nil:
			panic(unsupported("symbolic byte inside atom string"))
		default:
			args = append(args, mkStrLit(g.Lit))
		}
	}
	if len(args) == 1 {
		return args[0]
	}
	return mk("str.++", sortStr, args...)
}

// bytesTerms returns per-byte BV8 terms (atom-free strings only).
// the 256 literal byte terms (terms are immutable)
var byteLit = func() (t [256]*Term) {
	for i := range t {
		t[i] = mkBV(uint64(i), 8)
	}
	return
}()

func (s StrV) bytesTerms() []*Term {
	var out []*Term
	for _, g := range s.Segs {
		switch {
		case g.Atom != nil:
			panic(unsupported("byte access into opaque atom"))
		case g.Byte != nil:
			out = append(out, g.Byte)
		default:
			for i := 0; i < len(g.Lit); i++ {
				out = append(out, byteLit[g.Lit[i]])
			}
		}
	}
	return out
}

// byteAt returns byte idx (nil: out of range). Bytes of the literal/symbolic-byte segments in front of the first
// opaque atom are reachable; an index at or behind an atom is not decided here.
func (s StrV) byteAt(idx int) *Term {
	if idx < 0 {
		return nil
	}
	k := 0
	for _, g := range s.Segs {
		switch {
		case g.Atom != nil:
			panic(unsupported("byte access into opaque atom"))
		case g.Byte != nil:
			if k == idx {
				return g.Byte
			}
			k++
		default:
			if idx < k+len(g.Lit) {
				return mkBV(uint64(g.Lit[idx-k]), 8)
			}
			k += len(g.Lit)
		}
	}
	return nil
}

func strFromBytes(bs []*Term) StrV {
	// linear: runs of literal bytes are collected before they become one segment (long rows: 64 KiB and more)
	var segs []Seg
	var lit []byte
	flush := func() {
		if len(lit) > 0 {
			segs = append(segs, Seg{Lit: string(lit)})
			lit = lit[:0]
		}
	}
	for _, b := range bs {
		if b.Op == "bvlit" {
			lit = append(lit, byte(b.Val))
		} else {
			flush()
			segs = append(segs, Seg{Byte: b})
		}
	}
	flush()
	return StrV{Segs: segs}
}

type unsupportedErr struct{ msg string }

func unsupported(format string, a ...any) unsupportedErr {
	return unsupportedErr{fmt.Sprintf(format, a...)}
}

// zero value of a type
func zero(t types.Type) Value {
	switch t := t.Underlying().(type) {
	case *types.Basic:
		switch {
		case t.Info()&types.IsBoolean != 0:
			return BoolV{}
		case t.Info()&types.IsInteger != 0:
			return IntV{}
		case t.Info()&types.IsString != 0:
			return StrV{}
		case t.Kind() == types.UnsafePointer:
			return Ptr(nil)
		case t.Kind() == types.UntypedNil:
			return nil
		}
		panic(unsupported("zero of basic %v", t))
	case *types.Pointer:
		return Ptr(nil)
	case *types.Struct:
		s := make(Struct, t.NumFields())
		for i := range s {
			s[i] = zero(t.Field(i).Type())
		}
		return s
	case *types.Array:
		a := make(Array, t.Len())
		for i := range a {
			a[i] = zero(t.Elem())
		}
		return a
	case *types.Slice:
		return SliceV{Nil: true}
	case *types.Interface:
		return Iface{}
	case *types.Signature:
		return (*Closure)(nil)
	case *types.Map:
		return (*MapV)(nil)
	case *types.Chan:
		return (*ChanV)(nil)
	case *types.Tuple:
		tu := make(Tuple, t.Len())
		for i := range tu {
			tu[i] = zero(t.At(i).Type())
		}
		return tu
	}
	panic(unsupported("zero of %v", t))
}

func copyVal(v Value) Value {
	switch v := v.(type) {
	case Struct:
		c := make(Struct, len(v))
		for i := range v {
			c[i] = copyVal(v[i])
		}
		return c
	case Array:
		c := make(Array, len(v))
		for i := range v {
			c[i] = copyVal(v[i])
		}
		return c
	}
	return v
}

func intWidth(t types.Type) (int, bool) {
	b, ok := t.Underlying().(*types.Basic)
	if !ok {
		panic(unsupported("intWidth of %v", t))
	}
	switch b.Kind() {
	case types.Int8:
		return 8, true
	case types.Int16:
		return 16, true
	case types.Int32, types.UntypedRune:
		return 32, true
	case types.Int, types.Int64, types.UntypedInt:
		return 64, true
	case types.Uint8:
		return 8, false
	case types.Uint16:
		return 16, false
	case types.Uint32:
		return 32, false
	case types.Uint, types.Uint64, types.Uintptr:
		return 64, false
	}
	panic(unsupported("intWidth of %v", t))
}

func truncInt(c uint64, w int, signed bool) uint64 {
	if w == 64 {
		return c
	}
	c &= (1 << uint(w)) - 1
	if signed && c&(1<<uint(w-1)) != 0 {
		c |= ^uint64(0) << uint(w)
	}
	return c
}

func (v IntV) term(w int) *Term {
	if v.S != nil {
		return v.S
	}
	return mkBV(v.C, w)
}

func (b BoolV) term() *Term {
	if b.S != nil {
		return b.S
	}
	return mkBool(b.C)
}

func constValue(c *ssa.Const) Value {
	if c.Value == nil {
		return zero(c.Type())
	}
	t := c.Type().Underlying()
	if b, ok := t.(*types.Basic); ok {
		switch {
		case b.Info()&types.IsBoolean != 0:
			return BoolV{C: constant.BoolVal(c.Value)}
		case b.Info()&types.IsString != 0:
			if c.Value.Kind() == constant.String {
				return strLit(constant.StringVal(c.Value))
			}
		case b.Info()&types.IsInteger != 0:
			w, signed := intWidth(b)
			if signed {
				return IntV{C: truncInt(uint64(c.Int64()), w, true)}
			}
			return IntV{C: truncInt(c.Uint64(), w, false)}
		}
	}
	panic(unsupported("const %v of type %v", c, c.Type()))
}
