package main

import (
	"fmt"
	"sort"
	"strings"
)

// Sort of an SMT term.
type Sort struct {
	Kind  byte // 'B' bool, 'V' bitvec, 'S' string, 'I' int
	Width int
}

var (
	sortBool = Sort{Kind: 'B'}
	sortStr  = Sort{Kind: 'S'}
	sortInt  = Sort{Kind: 'I'}
)

func bv(w int) Sort { return Sort{Kind: 'V', Width: w} }

func (s Sort) String() string {
	switch s.Kind {
	case 'B':
		return "Bool"
	case 'V':
		return fmt.Sprintf("(_ BitVec %d)", s.Width)
	case 'S':
		return "String"
	case 'I':
		return "Int"
	}
	return "?"
}

// Term is an SMT-LIB term (tree; shared subterms are printed repeatedly, fine at our sizes).
type Term struct {
	Op   string // "const" (free symbol), "bvlit", "strlit", "true","false", or SMT operator
	Args []*Term
	Sort Sort
	Name string // for const
	Val  uint64 // for bvlit
	Str  string // for strlit
	text string
	cset map[string]Sort
}

func mkConst(name string, s Sort) *Term { return &Term{Op: "const", Name: name, Sort: s} }
func mkBV(v uint64, w int) *Term {
	if w < 64 {
		v &= (1 << uint(w)) - 1
	}
	return &Term{Op: "bvlit", Val: v, Sort: bv(w)}
}
func mkStrLit(s string) *Term { return &Term{Op: "strlit", Str: s, Sort: sortStr} }
func mkBool(b bool) *Term {
	if b {
		return &Term{Op: "true", Sort: sortBool}
	}
	return &Term{Op: "false", Sort: sortBool}
}
func mk(op string, s Sort, args ...*Term) *Term { return &Term{Op: op, Sort: s, Args: args} }

func mkNot(t *Term) *Term {
	switch t.Op {
	case "true":
		return mkBool(false)
	case "false":
		return mkBool(true)
	case "not":
		return t.Args[0]
	}
	return mk("not", sortBool, t)
}
func mkAnd(a, b *Term) *Term {
	if a.Op == "true" {
		return b
	}
	if b.Op == "true" {
		return a
	}
	if a.Op == "false" || b.Op == "false" {
		return mkBool(false)
	}
	return mk("and", sortBool, a, b)
}
func mkOr(a, b *Term) *Term {
	if a.Op == "false" {
		return b
	}
	if b.Op == "false" {
		return a
	}
	if a.Op == "true" || b.Op == "true" {
		return mkBool(true)
	}
	return mk("or", sortBool, a, b)
}
func mkEq(a, b *Term) *Term { return mk("=", sortBool, a, b) }

func smtStrLit(s string) string {
	var b strings.Builder
	b.WriteByte('"')
	for i := 0; i < len(s); i++ {
		c := s[i]
		switch {
		case c == '"':
			b.WriteString("\"\"")
		case c >= 0x20 && c < 0x7f && c != '\\':
			b.WriteByte(c)
		default:
			fmt.Fprintf(&b, "\\u{%x}", c)
		}
	}
	b.WriteByte('"')
	return b.String()
}

func (t *Term) String() string {
	if t.text != "" {
		return t.text
	}
	var s string
	switch t.Op {
	case "const":
		s = t.Name
	case "bvlit":
		s = fmt.Sprintf("(_ bv%d %d)", t.Val, t.Sort.Width)
	case "strlit":
		s = smtStrLit(t.Str)
	case "true", "false":
		s = t.Op
	case "intlit":
		s = t.Str
	default:
		var b strings.Builder
		b.WriteByte('(')
		b.WriteString(t.Op)
		for _, a := range t.Args {
			b.WriteByte(' ')
			b.WriteString(a.String())
		}
		b.WriteByte(')')
		s = b.String()
	}
	t.text = s
	return s
}

func collectConsts(t *Term, into map[string]Sort) {
	for k, v := range t.constSet() {
		into[k] = v
	}
}

var emptyCset = map[string]Sort{}

// constSet returns (and caches) the free symbols of t; the pseudo-entry "\x00str" marks String/Int-sorted subterms.
func (t *Term) constSet() map[string]Sort {
	if t.cset != nil {
		return t.cset
	}
	strSorted := t.Sort.Kind == 'S' || t.Sort.Kind == 'I'
	if t.Op == "const" {
		t.cset = map[string]Sort{t.Name: t.Sort}
		if strSorted {
			t.cset["\x00str"] = sortStr
		}
		return t.cset
	}
	var m map[string]Sort
	for _, a := range t.Args {
		c := a.constSet()
		if len(c) == 0 {
			continue
		}
		if m == nil {
			if len(t.Args) == 1 && !strSorted {
				t.cset = c
				return c
			}
			m = make(map[string]Sort, len(c)+2)
		}
		for k, v := range c {
			m[k] = v
		}
	}
	if strSorted {
		if m == nil {
			m = map[string]Sort{}
		}
		m["\x00str"] = sortStr
	}
	if m == nil {
		m = emptyCset
	}
	t.cset = m
	return m
}

func declsFor(terms []*Term) (string, []string, bool) {
	m := map[string]Sort{}
	for _, t := range terms {
		collectConsts(t, m)
	}
	names := make([]string, 0, len(m))
	useStr := false
	for n := range m {
		if n == "\x00str" {
			useStr = true
			continue
		}
		names = append(names, n)
	}
	sort.Strings(names)
	var b strings.Builder
	for _, n := range names {
		fmt.Fprintf(&b, "(declare-const %s %s)\n", n, m[n])
	}
	return b.String(), names, useStr
}
