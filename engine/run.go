package main

import (
	"fmt"
	"go/types"
	"os"
	"runtime/debug"
	"sort"
	"strings"

	"golang.org/x/tools/go/ssa"
)

type Violation struct {
	ID      string // assertion id (with cause class), or "panic@<ctx>", "deadlock@<ctx>", "unwind@<ctx>"
	Detail  string
	Model   map[string]string // raw solver values of every symbol of the path condition
	Path    []bool
	Unknown bool // solver could not decide (inconclusive, not a violation)
}

type rowGhost struct {
	kind  int
	depth Value
	text  StrV
}

type assertStat struct{ reached, discharged, violated, unknown int }

type Run struct {
	eng                        *Engine
	solver                     *Solver
	prefix                     []bool
	decisions                  []bool
	pc                         []*Term
	globals                    map[*ssa.Global]*Value
	seq                        map[string]int
	steps                      int
	pending                    [][]bool
	coros                      []*coroObj
	coroStack                  []*coroObj
	ghost                      map[string]rowGhost
	bbufs                      map[Ptr]*bbufState
	unknowns                   int             // undecided feasibility queries on this path
	nlFree                     map[string]bool // atoms constrained to contain no newline
	soft                       []*Term         // preferences for counterexample / witness models (never part of a verdict)
	memo                       map[string]StrV
	cs                         *concState
	race                       *raceState
	pools                      map[Ptr][]Value
	fsCalls                    []Value
	fsKinds                    []Value
	gorPanic                   any
	gwritten                   map[*ssa.Global]bool
	cancelCtx                  *ctxObj
	schedSeeded                bool
	schedState                 uint64
	cancelAt                   int
	cancelReason               Value
	cliVals                    map[string]Value
	cliCalls                   StrV
	cliOut                     StrV
	cliLibFailed, cliRunFailed bool
	cliStdoutFailed            bool
	cliStdout                  StrV
	ctxLabel                   string
	symbols                    []*Term // every fresh symbol created on this path, in creation order
	observed                   []obs
	notes                      []string

	asserts    map[string]*assertStat
	reached    map[string]int
	violations []Violation
	status     string
}

type obs struct {
	label string
	val   Value
}

func (r *Run) astat(id string) *assertStat {
	a := r.asserts[id]
	if a == nil {
		a = &assertStat{}
		r.asserts[id] = a
	}
	return a
}

func (r *Run) feasible(t *Term) bool {
	if t.Op == "true" {
		return true
	}
	if t.Op == "false" {
		return false
	}
	// an undecided feasibility query keeps the branch (sound for exploration), but a path on which the solver keeps
	// giving up is not worth 2 x 20 s per further branch: after the first unknown the path's queries get a short
	// timeout and no retry, and after maxUnknownPerPath of them the path is given up as undecided
	r.solver.quick = r.unknowns > 0
	res, _ := r.solver.check(append(append([]*Term{}, r.pc...), t), false, nil)
	r.solver.quick = false
	if res == "unknown" {
		r.unknowns++
		if r.unknowns > maxUnknownPerPath {
			panic(unsupported("solver could not decide the feasibility of %d branches of this path", r.unknowns))
		}
	}
	return res != "unsat"
}

const maxUnknownPerPath = 4

func (r *Run) branch(t *Term) bool {
	if t.Op == "true" {
		return true
	}
	if t.Op == "false" {
		return false
	}
	i := len(r.decisions)
	var d bool
	if i < len(r.prefix) {
		d = r.prefix[i]
	} else {
		// invariant: the path condition is satisfiable, so at least one side is feasible
		st := r.feasible(t)
		sf := true
		if st {
			sf = r.feasible(mkNot(t))
		}
		switch {
		case st && sf:
			d = true
			alt := append(append([]bool{}, r.decisions...), false)
			r.pending = append(r.pending, alt)
		case st:
			d = true
		default:
			d = false
		}
	}
	r.decisions = append(r.decisions, d)
	if d {
		r.pc = append(r.pc, t)
	} else {
		r.pc = append(r.pc, mkNot(t))
	}
	return d
}

func (r *Run) fresh(label string, s Sort) *Term {
	n := r.seq[label]
	r.seq[label] = n + 1
	t := mkConst(fmt.Sprintf("%s_%d", label, n), s)
	r.symbols = append(r.symbols, t)
	return t
}

const maxViolationsPerPath = 8

// checkModel asks for a model of asserts, first with the soft preferences, then without them.
func (r *Run) checkModel(asserts []*Term, extra []*Term) (string, map[string]string) {
	if len(r.soft) > 0 {
		if res, m := r.solver.altSolver().check(append(append([]*Term{}, asserts...), r.soft...), true, extra); res == "sat" {
			return res, m
		}
	}
	res, m := r.solver.check(asserts, true, extra)
	if res == "sat" && (m == nil || wideChars(m)) {
		// no model, or one with characters that are no bytes (z3 likes code points like U+1FFD0 for order
		// constraints; the engine's strings are byte strings): ask cvc5, whose models stay small
		if r2, m2 := r.solver.altSolver().check(asserts, true, extra); r2 == "sat" && m2 != nil && !wideChars(m2) {
			return res, m2
		}
	}
	return res, m
}

// wideChars: some string value of the model has an SMT-LIB escape for a code point above 0xFF
func wideChars(m map[string]string) bool {
	for _, v := range m {
		for i := 0; i+3 < len(v); i++ {
			if v[i] == '\\' && v[i+1] == 'u' && v[i+2] == '{' {
				j := i + 3
				for j < len(v) && v[j] != '}' {
					j++
				}
				if j-(i+3) > 2 {
					return true
				}
			}
		}
	}
	return false
}

func (r *Run) model() map[string]string {
	res, m := r.checkModel(r.pc, r.symbols)
	if res != "sat" {
		return nil
	}
	return m
}

func (r *Run) recordViolation(id, detail string, m map[string]string) {
	r.violations = append(r.violations, Violation{ID: id, Detail: detail, Model: m, Path: append([]bool{}, r.decisions...)})
}

func (r *Run) assertCond(c BoolV, id string) {
	a := r.astat(id)
	a.reached++
	if c.S == nil {
		if c.C {
			a.discharged++
			return
		}
		a.violated++
		r.recordViolation(id, "", r.model())
		panic(abortPath{"assertion violated on every input of the path: " + id})
	}
	r.solver.quick = r.unknowns > 0
	res, model := r.checkModel(append(append([]*Term{}, r.pc...), mkNot(c.S)), r.symbols)
	r.solver.quick = false
	switch res {
	case "unsat":
		a.discharged++
		r.pc = append(r.pc, c.S)
	case "sat":
		a.violated++
		r.recordViolation(id, "", model)
		if len(r.violations) >= maxViolationsPerPath {
			panic(abortPath{"assertion violated: " + id})
		}
		// continue under the assumption that the assertion holds, so later assertions are still checked on the other inputs
		if !r.feasible(c.S) {
			panic(abortPath{"assertion violated on every input of the path: " + id})
		}
		r.pc = append(r.pc, c.S)
	default:
		a.unknown++
		r.violations = append(r.violations, Violation{ID: id, Unknown: true, Path: append([]bool{}, r.decisions...)})
		r.pc = append(r.pc, c.S)
	}
}

func fieldIndexOpt(t types.Type, name string) (idx int) {
	defer func() {
		if recover() != nil {
			idx = -1
		}
	}()
	return fieldIndex(t, name)
}

func fieldIndex(t types.Type, name string) int {
	if p, ok := t.Underlying().(*types.Pointer); ok {
		t = p.Elem()
	}
	st := t.Underlying().(*types.Struct)
	for i := 0; i < st.NumFields(); i++ {
		if st.Field(i).Name() == name {
			return i
		}
	}
	panic("no field " + name)
}

// ---- coroutines (iter.newcoro / iter.coroswitch) ----

type coroMsg struct{ kill bool }

type coroObj struct {
	fn                Value
	self              Ptr
	started, finished bool
	toCoro, toCaller  chan coroMsg
	panicVal          any
}

func (r *Run) coroswitch(fr *frame, c *coroObj) {
	if n := len(r.coroStack); n > 0 && r.coroStack[n-1] == c {
		// inside the coroutine: yield to the other side
		r.coroStack = r.coroStack[:n-1]
		c.toCaller <- coroMsg{}
		m := <-c.toCoro
		if m.kill {
			panic(abortPath{"killed"})
		}
		return
	}
	if c.finished {
		return
	}
	r.coroStack = append(r.coroStack, c)
	if !c.started {
		c.started = true
		go func() {
			defer func() {
				if p := recover(); p != nil {
					c.panicVal = p
				}
				c.finished = true
				if n := len(r.coroStack); n > 0 && r.coroStack[n-1] == c {
					r.coroStack = r.coroStack[:n-1]
				}
				c.toCaller <- coroMsg{}
			}()
			r.call(fr, c.fn, []Value{c.self})
		}()
	} else {
		c.toCoro <- coroMsg{}
	}
	<-c.toCaller
	if c.panicVal != nil {
		p := c.panicVal
		c.panicVal = nil
		if a, ok := p.(abortPath); ok && a.why == "killed" {
			return
		}
		panic(p)
	}
}

func (r *Run) killCoros() {
	for _, c := range r.coros {
		if c.started && !c.finished {
			c.toCoro <- coroMsg{kill: true}
			<-c.toCaller
		}
	}
}

// ---- scanner / writer host objects ----

type scannerObj struct {
	lines  []Value
	idx    int
	err    Value
	rd     Struct // the harness reader (its pos field mirrors idx)
	posIdx int
}

var harnessPkgs = []string{
	"github.com/ddddddO/gtree.",
	"github.com/ddddddO/gtree/markdown.",
	"github.com/ddddddO/gtree/cmd/gtree.",
}

func (e *Engine) registerPrims() {
	prim := func(name string, f intrinsicFn) {
		for _, p := range harnessPkgs {
			e.intrinsics[p+name] = f
		}
	}
	noNL := func(r *Run, t *Term) {
		r.pc = append(r.pc, mkNot(mk("str.contains", sortBool, t, mkStrLit("\n"))))
		if r.nlFree == nil {
			r.nlFree = map[string]bool{}
		}
		r.nlFree[t.Name] = true
		// opaque strings are shorter than 2^30 bytes: lets the solver refute the integer-overflow guards of
		// library code (bytes.Buffer.grow and the like) at once instead of timing out on them
		r.pc = append(r.pc, mk("<=", sortBool, mk("str.len", sortInt, t), mkIntLit(1<<30)))
	}
	prim("verifRegister", func(r *Run, fr *frame, a []Value) Value { return nil })
	prim("verifN", func(r *Run, fr *frame, a []Value) Value { return IntV{C: uint64(int64(r.eng.n))} })
	prim("verifNative", func(r *Run, fr *frame, a []Value) Value { return BoolV{C: false} })
	prim("verifStr", func(r *Run, fr *frame, a []Value) Value {
		t := r.fresh("s_"+a[0].(StrV).concrete(), sortStr)
		noNL(r, t)
		return StrV{Segs: []Seg{{Atom: t}}}
	})
	// non-empty atom (item texts are non-empty: other half of the Parse contract)
	prim("verifText", func(r *Run, fr *frame, a []Value) Value {
		t := r.fresh("s_"+a[0].(StrV).concrete(), sortStr)
		noNL(r, t)
		r.pc = append(r.pc, mkNot(mkEq(t, mkStrLit(""))))
		return StrV{Segs: []Seg{{Atom: t}}}
	})
	// valid single path element
	prim("verifName", func(r *Run, fr *frame, a []Value) Value {
		t := r.fresh("s_"+a[0].(StrV).concrete(), sortStr)
		for _, bad := range []string{"", ".", ".."} {
			r.pc = append(r.pc, mkNot(mkEq(t, mkStrLit(bad))))
		}
		r.pc = append(r.pc, mkNot(mk("str.contains", sortBool, t, mkStrLit("/"))))
		r.pc = append(r.pc, mkNot(mk("str.contains", sortBool, t, mkStrLit("\x00"))))
		noNL(r, t)
		return StrV{Segs: []Seg{{Atom: t}}}
	})
	prim("verifLongName", func(r *Run, fr *frame, a []Value) Value {
		return r.eng.intrinsics[harnessPkgs[0]+"verifName"](r, fr, a)
	})
	prim("verifBytes", func(r *Run, fr *frame, a []Value) Value {
		n := r.concreteInt(a[1], "verifBytes n")
		var bs []*Term
		lab := a[0].(StrV).concrete()
		for i := 0; i < n; i++ {
			bs = append(bs, r.fresh("y_"+lab, bv(8)))
		}
		return strFromBytes(bs)
	})
	prim("verifUint", func(r *Run, fr *frame, a []Value) Value {
		return IntV{S: r.fresh("u_"+a[0].(StrV).concrete(), bv(64))}
	})
	prim("verifBool", func(r *Run, fr *frame, a []Value) Value {
		return BoolV{S: r.fresh("b_"+a[0].(StrV).concrete(), sortBool)}
	})
	// verifFlag: a symbolic boolean that is case-split immediately (concrete on each path)
	prim("verifFlag", func(r *Run, fr *frame, a []Value) Value {
		t := r.fresh("b_"+a[0].(StrV).concrete(), sortBool)
		return BoolV{C: r.branch(t)}
	})
	prim("verifChoose", func(r *Run, fr *frame, a []Value) Value {
		x := r.fresh("c_"+a[0].(StrV).concrete(), bv(64))
		lo, hi := a[1].(IntV), a[2].(IntV)
		if lo.S != nil || hi.S != nil {
			panic(unsupported("verifChoose bounds must be concrete"))
		}
		if int64(hi.C) < int64(lo.C) {
			panic(abortPath{"empty choose"})
		}
		for v := lo.C; v < hi.C; v++ {
			if r.branch(mkEq(x, mkBV(v, 64))) {
				return IntV{C: v}
			}
		}
		r.pc = append(r.pc, mkEq(x, mkBV(hi.C, 64)))
		return IntV{C: hi.C}
	})
	prim("verifAssume", func(r *Run, fr *frame, a []Value) Value {
		c := a[0].(BoolV)
		if c.S == nil {
			if !c.C {
				panic(abortPath{"assume false"})
			}
			return nil
		}
		if !r.feasible(c.S) {
			panic(abortPath{"assume infeasible"})
		}
		r.pc = append(r.pc, c.S)
		return nil
	})
	prim("verifAssert", func(r *Run, fr *frame, a []Value) Value {
		r.assertCond(a[0].(BoolV), a[1].(StrV).concrete())
		return nil
	})
	prim("verifReach", func(r *Run, fr *frame, a []Value) Value {
		r.reached[a[0].(StrV).concrete()]++
		return nil
	})
	prim("verifContext", func(r *Run, fr *frame, a []Value) Value {
		r.ctxLabel = a[0].(StrV).concrete()
		return nil
	})
	prim("verifObserve", func(r *Run, fr *frame, a []Value) Value {
		r.observed = append(r.observed, obs{label: a[0].(StrV).concrete(), val: a[1]})
		return nil
	})
	prim("verifNote", func(r *Run, fr *frame, a []Value) Value {
		r.notes = append(r.notes, a[0].(StrV).concrete())
		return nil
	})
	prim("verifRow", func(r *Run, fr *frame, a []Value) Value {
		t := r.fresh("row", sortStr)
		noNL(r, t)
		r.ghost[t.Name] = rowGhost{kind: r.concreteInt(a[1], "row kind"), depth: a[2], text: a[3].(StrV)}
		return concatStr(a[0].(StrV), StrV{Segs: []Seg{{Atom: t}}})
	})
}

func (e *Engine) registerIntrinsics() {
	in := e.intrinsics
	e.registerPrims()
	e.registerBytesBuffer()
	e.registerUTF8Intrinsics()
	e.registerStringsIntrinsics()
	e.registerAtomicIntrinsics()
	const G = "github.com/ddddddO/gtree."
	in["fmt.Sprintln"] = func(r *Run, fr *frame, a []Value) Value {
		s := StrV{}
		for i, e := range a[0].(SliceV).Data {
			sv, ok := e.(Iface).V.(StrV)
			if !ok {
				panic(unsupported("fmt.Sprintln of non-string"))
			}
			if i > 0 {
				s = concatStr(s, strLit(" "))
			}
			s = concatStr(s, sv)
		}
		return concatStr(s, strLit("\n"))
	}
	in["strings.NewReader"] = func(r *Run, fr *frame, a []Value) Value {
		slot := new(Value)
		*slot = &strReaderObj{s: a[0].(StrV)}
		return Ptr(slot)
	}
	// contract stub for (*markdown.Parser).Parse
	const M = "github.com/ddddddO/gtree/markdown"
	in["(*"+M+".Parser).Parse"] = func(r *Run, fr *frame, a []Value) Value {
		row := a[1].(StrV)
		var g rowGhost
		ok := false
		for _, sg := range row.Segs {
			if sg.Atom != nil {
				if gg, has := r.ghost[sg.Atom.Name]; has {
					g, ok = gg, true
				}
			}
		}
		if !ok {
			if !row.hasAtom() {
				// a row made of bytes only (literal blank rows, byte-level harness rows): the real parser runs
				m := r.eng.prog.LookupMethod(types.NewPointer(r.eng.prog.ImportedPackage(M).Type("Parser").Type()), nil, "Parse")
				r.eng.noteFunc(m.String())
				f2 := &frame{run: r, fn: m, env: make(map[ssa.Value]Value)}
				for i, p := range m.Params {
					f2.env[p] = a[i]
				}
				return f2.exec()
			}
			panic(unsupported("Parse stub: row without ghost: %s", describe(row)))
		}
		mpkg := r.eng.prog.ImportedPackage(M)
		errv := func(name string) Value { return *r.global(mpkg.Var(name)) }
		mdT := mpkg.Type("Markdown").Type()
		switch g.kind {
		case 0: // item(depth, text)
			d := g.depth.(IntV)
			var h IntV
			if d.S == nil {
				h = IntV{C: d.C + 1}
			} else {
				h = IntV{S: mk("bvadd", bv(64), d.S, mkBV(1, 64))}
			}
			p := new(Value)
			*p = Struct{h, g.text}
			return Tuple{Ptr(p), Iface{}}
		case 1:
			return Tuple{Ptr(nil), errv("ErrBlankLine")}
		case 2:
			return Tuple{Ptr(nil), errv("ErrIncorrectFormat")}
		case 3:
			return Tuple{Ptr(nil), errv("ErrEmptyText")}
		}
		_ = mdT
		panic("bad row kind")
	}
	in["bufio.NewScanner"] = func(r *Run, fr *frame, a []Value) Value {
		rd := a[0].(Iface)
		if pp, ok := rd.V.(Ptr); ok && pp != nil {
			if sr, ok := (*pp).(*strReaderObj); ok {
				sc := &scannerObj{lines: splitLines(sr.s), err: Iface{}, posIdx: -1}
				slot := new(Value)
				*slot = sc
				return Ptr(slot)
			}
		}
		p, ok := rd.V.(Ptr)
		if !ok || rd.T == nil || !strings.HasSuffix(rd.T.String(), "verifReader") {
			panic(unsupported("bufio.NewScanner on %v", rd.T))
		}
		st := (*p).(Struct)
		sc := &scannerObj{lines: st[fieldIndex(rd.T, "lines")].(SliceV).Data, err: st[fieldIndex(rd.T, "err")], rd: st, posIdx: fieldIndexOpt(rd.T, "pos")}
		slot := new(Value)
		*slot = sc
		return Ptr(slot)
	}
	in["(*bufio.Scanner).Scan"] = func(r *Run, fr *frame, a []Value) Value {
		sc := (*a[0].(Ptr)).(*scannerObj)
		if r.cs != nil && strings.Contains(r.eng.sched, "ryield") {
			// read-yield policies: every row read is a scheduling point (and an instant at which the context may be
			// cancelled): a cooperative stand-in for a reader that delivers its rows over time
			r.event()
			r.yield()
		}
		if sc.idx < len(sc.lines) {
			sc.idx++
			if sc.rd != nil && sc.posIdx >= 0 {
				sc.rd[sc.posIdx] = IntV{C: uint64(sc.idx)}
			}
			return BoolV{C: true}
		}
		sc.idx = len(sc.lines) + 1
		return BoolV{C: false}
	}
	in["(*bufio.Scanner).Text"] = func(r *Run, fr *frame, a []Value) Value {
		sc := (*a[0].(Ptr)).(*scannerObj)
		return sc.lines[sc.idx-1]
	}
	in["(*bufio.Scanner).Err"] = func(r *Run, fr *frame, a []Value) Value {
		sc := (*a[0].(Ptr)).(*scannerObj)
		return sc.err
	}
	in["fmt.Fprint"] = func(r *Run, fr *frame, a []Value) Value {
		w := a[0].(Iface)
		if fileNameOf(w) != "other" && fileNameOf(w) != "?" && fileNameOf(w) != "nil" {
			// a standard stream (C16 harnesses): the text is not inspected
			return Tuple{IntV{}, Iface{}}
		}
		s := StrV{}
		for _, e := range a[1].(SliceV).Data {
			sv, ok := e.(Iface).V.(StrV)
			if !ok {
				panic(unsupported("fmt.Fprint of non-string %T", e.(Iface).V))
			}
			s = concatStr(s, sv)
		}
		m := r.eng.prog.LookupMethod(w.T, nil, "Write")
		if m == nil {
			panic(unsupported("Write method not found on %v", w.T))
		}
		res := r.callFunc(fr, m, []Value{w.V, BytesOf{S: s}}, nil)
		if r.cs != nil && strings.Contains(r.eng.sched, "wyield") {
			r.yield()
		}
		return res
	}
	noop := func(r *Run, fr *frame, a []Value) Value { return nil }
	for _, n := range []string{"(*sync.RWMutex).Lock", "(*sync.RWMutex).Unlock", "(*sync.RWMutex).RLock", "(*sync.RWMutex).RUnlock", "(*sync.Mutex).Lock", "(*sync.Mutex).Unlock"} {
		in[n] = noop
	}
	// path.Join on opaque names: uninterpreted (deterministic) function
	in["path.Join"] = func(r *Run, fr *frame, a []Value) Value {
		anyAtom := false
		for _, e := range a[0].(SliceV).Data {
			if e.(StrV).hasAtom() {
				anyAtom = true
			}
		}
		if !anyAtom {
			return r.callBody(fr, "path", "Join", a)
		}
		var keys []string
		for _, e := range a[0].(SliceV).Data {
			keys = append(keys, describe(e.(StrV)))
		}
		k := "path.Join(" + strings.Join(keys, ",") + ")"
		if v, ok := r.memo[k]; ok {
			return v
		}
		v := StrV{Segs: []Seg{{Atom: r.fresh("pj", sortStr)}}}
		r.memo[k] = v
		return v
	}
	in["internal/bytealg.IndexByteString"] = func(r *Run, fr *frame, a []Value) Value {
		bs := a[0].(StrV).bytesTerms()
		c := a[1].(IntV).term(8)
		for i, b := range bs {
			if b.Op == "bvlit" && c.Op == "bvlit" {
				if b.Val == c.Val {
					return IntV{C: uint64(i)}
				}
				continue
			}
			if r.branch(mkEq(b, c)) {
				return IntV{C: uint64(i)}
			}
		}
		return IntV{C: ^uint64(0)}
	}
	in["internal/bytealg.IndexByte"] = func(r *Run, fr *frame, a []Value) Value {
		c := a[1].(IntV).term(8)
		for i, e := range a[0].(SliceV).Data {
			b := e.(IntV).term(8)
			if b.Op == "bvlit" && c.Op == "bvlit" {
				if b.Val == c.Val {
					return IntV{C: uint64(i)}
				}
				continue
			}
			if r.branch(mkEq(b, c)) {
				return IntV{C: uint64(i)}
			}
		}
		return IntV{C: ^uint64(0)}
	}
	in["internal/bytealg.CountString"] = func(r *Run, fr *frame, a []Value) Value {
		bs := a[0].(StrV).bytesTerms()
		c := a[1].(IntV).term(8)
		n := uint64(0)
		var sym *Term
		for _, b := range bs {
			if b.Op == "bvlit" && c.Op == "bvlit" {
				if b.Val == c.Val {
					n++
				}
				continue
			}
			t := mk("ite", bv(64), mkEq(b, c), mkBV(1, 64), mkBV(0, 64))
			if sym == nil {
				sym = t
			} else {
				sym = mk("bvadd", bv(64), sym, t)
			}
		}
		if sym == nil {
			return IntV{C: n}
		}
		if n != 0 {
			sym = mk("bvadd", bv(64), sym, mkBV(n, 64))
		}
		// case-split the (small) count so later / and % stay concrete
		for k := n; k < uint64(len(bs)); k++ {
			if r.branch(mkEq(sym, mkBV(k, 64))) {
				return IntV{C: k}
			}
		}
		r.pc = append(r.pc, mkEq(sym, mkBV(uint64(len(bs)), 64)))
		return IntV{C: uint64(len(bs))}
	}
	// ---- filesystem stubs: record mutating calls, results nondeterministic ----
	notExist := func(r *Run) Value { return *r.global(r.eng.prog.ImportedPackage("io/fs").Var("ErrNotExist")) }
	in["os.Stat"] = func(r *Run, fr *frame, a []Value) Value {
		// byte-level recorder: the target directory itself (and its parent) exists, nothing else does
		p := a[0].(StrV)
		for _, ex := range []string{"/jail/target", "/jail"} {
			e := r.strEqual(p, strLit(ex))
			is := e.C
			if e.S != nil {
				is = r.branch(e.S)
			}
			if is {
				return Tuple{Iface{T: r.eng.prog.ImportedPackage("io/fs").Type("FileInfo").Type(), V: &fileInfoObj{dir: true}}, Iface{}}
			}
		}
		return Tuple{Iface{}, notExist(r)}
	}
	in["os.Lstat"] = in["os.Stat"] // (no links in the recorder's world)
	in["os.IsNotExist"] = func(r *Run, fr *frame, a []Value) Value {
		return r.equal(nil, a[0], notExist(r))
	}
	in["os.MkdirAll"] = func(r *Run, fr *frame, a []Value) Value {
		r.fsCalls = append(r.fsCalls, a[0])
		r.fsKinds = append(r.fsKinds, strLit("mkdir"))
		return Iface{}
	}
	in["os.Create"] = func(r *Run, fr *frame, a []Value) Value {
		r.fsCalls = append(r.fsCalls, a[0])
		r.fsKinds = append(r.fsKinds, strLit("create"))
		slot := new(Value)
		*slot = &fileObj{}
		return Tuple{Ptr(slot), Iface{}}
	}
	in["(*os.File).Close"] = func(r *Run, fr *frame, a []Value) Value { return Iface{} }
	in["os.OpenFile"] = func(r *Run, fr *frame, a []Value) Value {
		if flags := r.concreteInt(a[1], "OpenFile flags"); flags&0x40 == 0 {
			panic(unsupported("os.OpenFile without O_CREATE (flags %#x)", flags))
		}
		return in["os.Create"](r, fr, a[:1])
	}
	in["os.IsExist"] = func(r *Run, fr *frame, a []Value) Value {
		return r.equal(nil, a[0], *r.global(r.eng.prog.ImportedPackage("io/fs").Var("ErrExist")))
	}
	for _, hp := range harnessPkgs {
		in[hp+"verifFSKinds"] = func(r *Run, fr *frame, a []Value) Value {
			return SliceV{Data: append([]Value{}, r.fsKinds...)}
		}
		in[hp+"verifFSCalls"] = func(r *Run, fr *frame, a []Value) Value {
			return SliceV{Data: append([]Value{}, r.fsCalls...)}
		}
	}
	in["bufio.NewWriter"] = func(r *Run, fr *frame, a []Value) Value {
		slot := new(Value)
		*slot = &bufWriterObj{w: a[0].(Iface)}
		return Ptr(slot)
	}
	in["(*bufio.Writer).Write"] = func(r *Run, fr *frame, a []Value) Value {
		r.raceAccess(writerKey{a[0].(Ptr)}, true, fr, nil)
		b := (*a[0].(Ptr)).(*bufWriterObj)
		var s StrV
		switch p := a[1].(type) {
		case BytesOf:
			s = p.S
		case SliceV:
			var bs []*Term
			for _, e := range p.Data {
				bs = append(bs, e.(IntV).term(8))
			}
			s = strFromBytes(bs)
		default:
			panic(unsupported("bufio.Writer.Write of %T", a[1]))
		}
		if e, ok := r.bufAdd(fr, b, s); !ok {
			return Tuple{IntV{}, e}
		}
		return Tuple{r.strLen(s), Iface{}}
	}
	// fmt.Fprintln = Sprintln + one Write
	in["fmt.Fprintln"] = func(r *Run, fr *frame, a []Value) Value {
		w := a[0].(Iface)
		s := in["fmt.Sprintln"](r, fr, []Value{a[1]}).(StrV)
		if p, ok := w.V.(Ptr); ok && p != nil {
			if b, ok := (*p).(*bufWriterObj); ok {
				r.raceAccess(writerKey{p}, true, fr, nil)
				if e, ok := r.bufAdd(fr, b, s); !ok {
					return Tuple{IntV{}, e}
				}
				return Tuple{r.strLen(s), Iface{}}
			}
		}
		m := r.eng.prog.LookupMethod(w.T, nil, "Write")
		if m == nil {
			panic(unsupported("Write method not found on %v", w.T))
		}
		res := r.callFunc(fr, m, []Value{w.V, BytesOf{S: s}}, nil)
		if r.cs != nil && strings.Contains(r.eng.sched, "wyield") {
			r.yield()
		}
		return res
	}
	in["(*bufio.Writer).WriteString"] = func(r *Run, fr *frame, a []Value) Value {
		r.raceAccess(writerKey{a[0].(Ptr)}, true, fr, nil)
		b := (*a[0].(Ptr)).(*bufWriterObj)
		if e, ok := r.bufAdd(fr, b, a[1].(StrV)); !ok {
			return Tuple{IntV{}, e}
		}
		return Tuple{r.strLen(a[1].(StrV)), Iface{}}
	}
	in["(*bufio.Writer).Flush"] = func(r *Run, fr *frame, a []Value) Value {
		r.raceAccess(writerKey{a[0].(Ptr)}, true, fr, nil)
		b := (*a[0].(Ptr)).(*bufWriterObj)
		if len(b.buf.Segs) == 0 {
			return Iface{}
		}
		m := r.eng.prog.LookupMethod(b.w.T, nil, "Write")
		res := r.callFunc(fr, m, []Value{b.w.V, BytesOf{S: b.buf}}, nil).(Tuple)
		b.buf = StrV{}
		return res[1]
	}
	in["internal/bytealg.MakeNoZero"] = func(r *Run, fr *frame, a []Value) Value {
		n := r.concreteInt(a[0], "MakeNoZero len")
		data := make([]Value, n)
		for i := range data {
			data[i] = IntV{}
		}
		return SliceV{Data: data}
	}
	in["internal/abi.NoEscape"] = func(r *Run, fr *frame, a []Value) Value { return a[0] }
	in["(*strings.Builder).copyCheck"] = func(r *Run, fr *frame, a []Value) Value { return nil }
	in["iter.newcoro"] = func(r *Run, fr *frame, a []Value) Value {
		c := &coroObj{fn: a[0], toCoro: make(chan coroMsg), toCaller: make(chan coroMsg)}
		slot := new(Value)
		*slot = c
		c.self = Ptr(slot)
		r.coros = append(r.coros, c)
		return Ptr(slot)
	}
	in["iter.coroswitch"] = func(r *Run, fr *frame, a []Value) Value {
		c := (*a[0].(Ptr)).(*coroObj)
		r.coroswitch(fr, c)
		return nil
	}
}

type pathResult struct {
	status     string // ok | pruned | abort | panic | deadlock | unwind | unsupported
	detail     string
	decisions  []bool
	asserts    map[string]*assertStat
	reached    map[string]int
	violations []Violation
	pending    [][]bool
	steps      int
	sample     *Sample
	notes      []string
}

// Sample is one completed path written out: a model of its path condition and the values the harness observed.
type Sample struct {
	Model    map[string]string `json:"model"`
	Observed map[string]string `json:"observed,omitempty"` // label -> hex bytes / decimal / bool under the model
	Notes    []string          `json:"notes,omitempty"`
	// the path ended in something the engine does not model; the model covers the path up to there
	Unsupported bool `json:"unsupported_path,omitempty"`
}

func (e *Engine) runPath(solver *Solver, harness *ssa.Function, prefix []bool, wantSample bool) (res pathResult) {
	r := &Run{eng: e, solver: solver, prefix: prefix, globals: map[*ssa.Global]*Value{}, seq: map[string]int{}, ghost: map[string]rowGhost{}, memo: map[string]StrV{},
		asserts: map[string]*assertStat{}, reached: map[string]int{}}
	defer func() {
		p := recover()
		r.killCoros()
		r.killGors()
		res.decisions = r.decisions
		res.asserts, res.reached, res.violations, res.pending, res.steps, res.notes = r.asserts, r.reached, r.violations, r.pending, r.steps, r.notes
		ctx := r.ctxLabel
		if ctx == "" {
			ctx = harness.Name()
		}
		switch p := p.(type) {
		case nil:
			res.status = "ok"
			if wantSample {
				res.sample = r.sample()
			}
		case abortPath:
			switch {
			case strings.HasPrefix(p.why, "assume"), p.why == "empty choose":
				res.status = "pruned"
			case strings.HasPrefix(p.why, "deadlock"):
				res.status = "deadlock"
				res.violations = append(res.violations, Violation{ID: "deadlock@" + ctx, Detail: p.why, Model: r.model(), Path: append([]bool{}, r.decisions...)})
			case strings.HasPrefix(p.why, "step budget"):
				res.status = "unwind"
				res.violations = append(res.violations, Violation{ID: "unwind@" + ctx, Detail: p.why, Model: r.model(), Path: append([]bool{}, r.decisions...)})
			default:
				res.status = "abort"
			}
			res.detail = p.why
		case goPanic:
			res.status = "panic"
			res.detail = describe(p.v)
			if i, ok := p.v.(Iface); ok {
				res.detail = describe(i.V)
			}
			res.violations = append(res.violations, Violation{ID: "panic@" + ctx, Detail: res.detail, Model: r.model(), Path: append([]bool{}, r.decisions...)})
		case unsupportedErr:
			res.status = "unsupported"
			res.detail = p.msg
			res.sample = r.unsupSample()
		case exitPanic:
			res.status = "unsupported"
			res.detail = "os.Exit outside verifExitCode"
		default:
			// a limitation of the interpreter itself (type it does not model, value shape it did not expect): the path
			// is not decided; never a crash of the whole run and never a pass
			res.status = "unsupported"
			res.detail = fmt.Sprintf("engine limitation: %v", p)
			res.sample = r.unsupSample()
			if os.Getenv("VERIF_DEBUG_PANIC") != "" {
				fmt.Fprintf(os.Stderr, "engine panic: %v\n%s\n", p, debug.Stack())
			}
			if len(res.detail) > 160 {
				res.detail = res.detail[:160]
			}
		}
		if r.race != nil && len(r.race.reports) > 0 && res.status != "pruned" && res.status != "unsupported" {
			// unordered conflicting accesses seen on this path's schedule (race.go)
			m := r.model()
			for _, msg := range r.race.reports {
				res.violations = append(res.violations, Violation{ID: "race@" + ctx, Detail: msg, Model: m, Path: append([]bool{}, r.decisions...)})
			}
		}
	}()
	// package initialisers
	for _, pkg := range e.initOrder {
		r.callFunc(nil, pkg.Func("init"), nil, nil)
	}
	r.callFunc(nil, harness, nil, nil)
	return
}

// sample asks the solver for a model of the path condition and evaluates the observed values under it.
// unsupSample: a model of the path condition up to the point where the engine gave up (the first few such paths
// of a job only). The path is not decided -- the check stays "not decided" -- but its inputs are run natively, and a
// native assertion failure or crash is a concrete violation on the real build (concolic fallback, see check.go).
func (r *Run) unsupSample() (s *Sample) {
	if r.eng.unsupSamples.Add(1) > 16 {
		return nil
	}
	defer func() {
		if recover() != nil {
			s = nil
		}
	}()
	r.observed = nil // the engine's predictions end where it gave up: only the inputs matter
	if s = r.sample(); s != nil {
		s.Unsupported = true
	}
	return s
}

func (r *Run) sample() *Sample {
	var extra []*Term
	extra = append(extra, r.symbols...)
	for _, o := range r.observed {
		extra = append(extra, valueTerms(o.val)...)
	}
	res, m := r.checkModel(r.pc, extra)
	if res != "sat" || m == nil {
		return nil
	}
	s := &Sample{Model: map[string]string{}, Observed: map[string]string{}, Notes: r.notes}
	for _, t := range r.symbols {
		if v, ok := m[t.Name]; ok {
			s.Model[t.Name] = v
		}
	}
	cnt := map[string]int{}
	for _, o := range r.observed {
		k := fmt.Sprintf("%s#%d", o.label, cnt[o.label])
		cnt[o.label]++
		v, ok := evalValue(o.val, m)
		if !ok {
			v = "?"
		}
		s.Observed[k] = v
	}
	return s
}

// valueTerms lists the non-constant SMT terms whose values are needed to evaluate v.
func valueTerms(v Value) []*Term {
	switch v := v.(type) {
	case StrV:
		var ts []*Term
		for _, g := range v.Segs {
			if g.Atom != nil {
				ts = append(ts, g.Atom)
			}
			if g.Byte != nil {
				ts = append(ts, g.Byte)
			}
		}
		return ts
	case IntV:
		if v.S != nil {
			return []*Term{v.S}
		}
	case BoolV:
		if v.S != nil {
			return []*Term{v.S}
		}
	}
	return nil
}

func termVal(t *Term, m map[string]string) (string, bool) {
	if t.Op == "const" {
		v, ok := m[t.Name]
		return v, ok
	}
	v, ok := m[t.String()]
	return v, ok
}

// evalValue renders v under model m: strings as hex of their bytes, integers in decimal, booleans as true/false.
func evalValue(v Value, m map[string]string) (string, bool) {
	switch v := v.(type) {
	case StrV:
		var out []byte
		for _, g := range v.Segs {
			switch {
			case g.Atom != nil:
				raw, ok := termVal(g.Atom, m)
				if !ok {
					return "", false
				}
				b, ok := decodeSMTString(raw)
				if !ok {
					return "", false
				}
				out = append(out, b...)
			case g.Byte != nil:
				raw, ok := termVal(g.Byte, m)
				if !ok {
					return "", false
				}
				n, ok := decodeSMTBV(raw)
				if !ok {
					return "", false
				}
				out = append(out, byte(n))
			default:
				out = append(out, g.Lit...)
			}
		}
		return fmt.Sprintf("%x", out), true
	case IntV:
		if v.S == nil {
			return fmt.Sprintf("%d", int64(v.C)), true
		}
		raw, ok := termVal(v.S, m)
		if !ok {
			return "", false
		}
		if v.S.Sort.Kind == 'I' {
			return strings.NewReplacer("(", "", ")", "", " ", "").Replace(raw), true
		}
		n, ok := decodeSMTBV(raw)
		return fmt.Sprintf("%d", int64(n)), ok
	case BoolV:
		if v.S == nil {
			return fmt.Sprintf("%v", v.C), true
		}
		raw, ok := termVal(v.S, m)
		return raw, ok
	}
	return "", false
}

// decodeSMTBV parses #x.., #b.. or (_ bvN w).
func decodeSMTBV(s string) (uint64, bool) {
	s = strings.TrimSpace(s)
	var n uint64
	switch {
	case strings.HasPrefix(s, "#x"):
		_, err := fmt.Sscanf(s[2:], "%x", &n)
		return n, err == nil
	case strings.HasPrefix(s, "#b"):
		for _, c := range s[2:] {
			n = n<<1 | uint64(c-'0')
		}
		return n, true
	case strings.HasPrefix(s, "(_ bv"):
		_, err := fmt.Sscanf(s[5:], "%d", &n)
		return n, err == nil
	}
	return 0, false
}

// decodeSMTString turns an SMT-LIB string literal into bytes: code points < 0x80 are bytes, larger ones are
// UTF-8 encoded (an injective homomorphism, so equalities, concatenations, prefix/suffix and ASCII containment
// of the model are preserved; only lengths may grow).
func decodeSMTString(s string) ([]byte, bool) {
	s = strings.TrimSpace(s)
	if len(s) < 2 || s[0] != '"' || s[len(s)-1] != '"' {
		return nil, false
	}
	s = s[1 : len(s)-1]
	var out []byte
	for i := 0; i < len(s); {
		c := s[i]
		if c == '"' && i+1 < len(s) && s[i+1] == '"' {
			out = append(out, '"')
			i += 2
			continue
		}
		if c == '\\' && i+1 < len(s) && s[i+1] == 'u' {
			// \u{h..} or \uhhhh
			j := i + 2
			var hex string
			if j < len(s) && s[j] == '{' {
				k := strings.IndexByte(s[j:], '}')
				if k < 0 {
					return nil, false
				}
				hex = s[j+1 : j+k]
				i = j + k + 1
			} else if j+4 <= len(s) {
				hex = s[j : j+4]
				i = j + 4
			} else {
				return nil, false
			}
			var cp uint32
			if _, err := fmt.Sscanf(hex, "%x", &cp); err != nil {
				return nil, false
			}
			if cp < 0x80 {
				out = append(out, byte(cp))
			} else {
				out = append(out, string(rune(cp))...)
			}
			continue
		}
		if c == '\\' && i+1 < len(s) && s[i+1] == 'x' && i+4 <= len(s) {
			// z3 4.8 style \xhh
			var cp uint32
			if _, err := fmt.Sscanf(s[i+2:i+4], "%x", &cp); err == nil {
				if cp < 0x80 {
					out = append(out, byte(cp))
				} else {
					out = append(out, string(rune(cp))...)
				}
				i += 4
				continue
			}
		}
		out = append(out, c)
		i++
	}
	return out, true
}

func sortedKeys(m map[string]bool) []string {
	var ks []string
	for k := range m {
		ks = append(ks, k)
	}
	sort.Strings(ks)
	return ks
}

type strReaderObj struct{ s StrV }

// splitLines splits at literal newlines (atoms are assumed newline-free), bufio.ScanLines style.
func splitLines(s StrV) []Value {
	var lines []Value
	cur := StrV{}
	pending := false
	for _, g := range s.Segs {
		if g.Atom != nil || g.Byte != nil {
			cur = StrV{Segs: append(append([]Seg{}, cur.Segs...), g)}
			pending = true
			continue
		}
		lit := g.Lit
		for {
			i := strings.IndexByte(lit, '\n')
			if i < 0 {
				break
			}
			cur = concatStr(cur, strLit(lit[:i]))
			lines = append(lines, cur)
			cur = StrV{}
			pending = false
			lit = lit[i+1:]
		}
		if lit != "" {
			cur = concatStr(cur, strLit(lit))
			pending = true
		}
	}
	if pending {
		lines = append(lines, cur)
	}
	return lines
}

// callBody runs the real SSA body of pkg.fn, bypassing intrinsics.
func (r *Run) callBody(caller *frame, pkg, fn string, args []Value) Value {
	f := r.eng.prog.ImportedPackage(pkg).Func(fn)
	r.eng.noteFunc(f.String())
	fr := &frame{run: r, fn: f, env: make(map[ssa.Value]Value)}
	for i, p := range f.Params {
		fr.env[p] = args[i]
	}
	return fr.exec()
}

type bufWriterObj struct {
	w   Iface
	buf StrV
}

// bufAdd: bufio.Writer's hand-over rule. With concrete contents (the sizes are known) the real rule is followed: the
// 4096-byte buffer is filled and flushed whenever the data does not fit, and data arriving at an empty buffer that is
// larger than the buffer goes to the underlying writer directly. With opaque contents the buffer is unbounded (one
// Write at Flush): blocks of that size with opaque names are outside the model.
func (r *Run) bufAdd(fr *frame, b *bufWriterObj, s StrV) (Value, bool) {
	const size = 4096
	if !b.buf.isConcrete() || !s.isConcrete() || len(b.buf.concrete())+len(s.concrete()) <= size {
		b.buf = concatStr(b.buf, s)
		return nil, true
	}
	cur, p := b.buf.concrete(), s.concrete()
	write := func(data string) Value {
		m := r.eng.prog.LookupMethod(b.w.T, nil, "Write")
		res := r.callFunc(fr, m, []Value{b.w.V, BytesOf{S: strLit(data)}}, nil).(Tuple)
		if r.cs != nil && strings.Contains(r.eng.sched, "wyield") {
			r.yield()
		}
		if e, ok := res[1].(Iface); ok && e.T != nil {
			return e
		}
		return nil
	}
	for len(p) > size-len(cur) {
		if len(cur) == 0 {
			if e := write(p); e != nil {
				b.buf = StrV{}
				return e, false
			}
			p = ""
			break
		}
		n := size - len(cur)
		cur += p[:n]
		p = p[n:]
		if e := write(cur); e != nil {
			b.buf = StrV{}
			return e, false
		}
		cur = ""
	}
	b.buf = strLit(cur + p)
	return nil, true
}

// bytes.Buffer as a stub: the content is a string value (literal, symbolic bytes, opaque atoms), so writes of
// opaque strings need no symbolic-length byte slices. Cap() is abstract: a fresh integer c with c >= every length
// the buffer had since the last evaluation, c >= the previous capacity, and c == the previous capacity if the
// content never outgrew it (the real growth policy is the runtime's; every real run is one of the modelled ones).
// For counterexample models the solver is asked to prefer c == current length (the smallest legal capacity), so that
// "capacity above X" in a model means "content longer than X", which the real run then reproduces.
type bbufState struct {
	s    StrV
	capT *Term   // last evaluated capacity (nil: 0)
	lens []*Term // lengths reached since the last evaluation (Int-sorted terms)
}

func (r *Run) bbuf(p Value) *bbufState {
	ptr := p.(Ptr)
	if r.bbufs == nil {
		r.bbufs = map[Ptr]*bbufState{}
	}
	b := r.bbufs[ptr]
	if b == nil {
		b = &bbufState{}
		r.bbufs[ptr] = b
	}
	return b
}

func (r *Run) intTermOf(v IntV) *Term {
	if v.S == nil {
		return mkIntLit(int64(v.C))
	}
	if v.S.Sort.Kind == 'I' {
		return v.S
	}
	panic(unsupported("bytes.Buffer length as bit-vector term"))
}

func (r *Run) bbufAppend(b *bbufState, s StrV) {
	b.s = concatStr(b.s, s)
	b.lens = append(b.lens, r.intTermOf(r.strLen(b.s)))
}

func bytesArg(v Value) StrV {
	switch p := v.(type) {
	case BytesOf:
		return p.S
	case SliceV:
		var bs []*Term
		for _, e := range p.Data {
			bs = append(bs, e.(IntV).term(8))
		}
		return strFromBytes(bs)
	}
	panic(unsupported("bytes argument of %T", v))
}

func (e *Engine) registerBytesBuffer() {
	in := e.intrinsics
	in["(*bytes.Buffer).Write"] = func(r *Run, fr *frame, a []Value) Value {
		r.raceAccess(writerKey{a[0].(Ptr)}, true, fr, nil)
		s := bytesArg(a[1])
		r.bbufAppend(r.bbuf(a[0]), s)
		return Tuple{r.strLen(s), Iface{}}
	}
	in["(*bytes.Buffer).WriteString"] = func(r *Run, fr *frame, a []Value) Value {
		r.raceAccess(writerKey{a[0].(Ptr)}, true, fr, nil)
		s := a[1].(StrV)
		r.bbufAppend(r.bbuf(a[0]), s)
		return Tuple{r.strLen(s), Iface{}}
	}
	in["(*bytes.Buffer).WriteByte"] = func(r *Run, fr *frame, a []Value) Value {
		r.raceAccess(writerKey{a[0].(Ptr)}, true, fr, nil)
		r.bbufAppend(r.bbuf(a[0]), strFromBytes([]*Term{a[1].(IntV).term(8)}))
		return Iface{}
	}
	in["(*bytes.Buffer).String"] = func(r *Run, fr *frame, a []Value) Value {
		if a[0].(Ptr) == nil {
			return strLit("<nil>")
		}
		r.raceAccess(writerKey{a[0].(Ptr)}, false, fr, nil)
		return r.bbuf(a[0]).s
	}
	in["(*bytes.Buffer).Bytes"] = func(r *Run, fr *frame, a []Value) Value {
		s := r.bbuf(a[0]).s
		if s.hasAtom() {
			return BytesOf{S: s}
		}
		bs := s.bytesTerms()
		data := make([]Value, len(bs))
		for i, t := range bs {
			if t.Op == "bvlit" {
				data[i] = IntV{C: t.Val}
			} else {
				data[i] = IntV{S: t}
			}
		}
		return SliceV{Data: data}
	}
	// WriteTo: one Write of everything that is buffered; the buffer is emptied by what the writer took (a writer that
	// fails keeps its share in the buffer), and reset after a complete write
	in["(*bytes.Buffer).WriteTo"] = func(r *Run, fr *frame, a []Value) Value {
		r.raceAccess(writerKey{a[0].(Ptr)}, true, fr, nil)
		b := r.bbuf(a[0])
		if len(b.s.Segs) == 0 {
			return Tuple{IntV{}, Iface{}}
		}
		w := a[1].(Iface)
		m := r.eng.prog.LookupMethod(w.T, nil, "Write")
		if m == nil {
			panic(unsupported("Write method not found on %v", w.T))
		}
		res := r.callFunc(fr, m, []Value{w.V, BytesOf{S: b.s}}, nil).(Tuple)
		if e, ok := res[1].(Iface); ok && e.T != nil {
			if n, isInt := res[0].(IntV); !isInt || n.S != nil || n.C != 0 {
				panic(unsupported("bytes.Buffer.WriteTo: partial write with an error"))
			}
			return Tuple{IntV{}, res[1]}
		}
		b.s = StrV{}
		return Tuple{res[0], Iface{}}
	}
	in["(*bytes.Buffer).Len"] = func(r *Run, fr *frame, a []Value) Value { return r.strLen(r.bbuf(a[0]).s) }
	in["(*bytes.Buffer).Reset"] = func(r *Run, fr *frame, a []Value) Value { r.bbuf(a[0]).s = StrV{}; return nil }
	in["(*bytes.Buffer).Truncate"] = func(r *Run, fr *frame, a []Value) Value {
		if n := r.concreteInt(a[1], "Truncate"); n != 0 {
			panic(unsupported("bytes.Buffer.Truncate(%d)", n))
		}
		r.bbuf(a[0]).s = StrV{}
		return nil
	}
	in["(*bytes.Buffer).Grow"] = func(r *Run, fr *frame, a []Value) Value {
		b := r.bbuf(a[0])
		b.lens = append(b.lens, mk("+", sortInt, r.intTermOf(r.strLen(b.s)), r.intTermOf(a[1].(IntV))))
		return nil
	}
	in["(*bytes.Buffer).Cap"] = func(r *Run, fr *frame, a []Value) Value {
		b := r.bbuf(a[0])
		if len(b.lens) == 0 {
			if b.capT == nil {
				return IntV{C: 0}
			}
			return IntV{S: b.capT}
		}
		c := r.fresh("bufcap", sortInt)
		fits := []*Term{}
		for _, l := range b.lens {
			r.pc = append(r.pc, mk(">=", sortBool, c, l))
			if b.capT != nil {
				fits = append(fits, mk("<=", sortBool, l, b.capT))
			}
		}
		if b.capT != nil {
			r.pc = append(r.pc, mk(">=", sortBool, c, b.capT))
			all := fits[0]
			for _, f := range fits[1:] {
				all = mk("and", sortBool, all, f)
			}
			r.pc = append(r.pc, mk("=>", sortBool, all, mkEq(c, b.capT)))
		}
		r.pc = append(r.pc, mk("<=", sortBool, c, mkIntLit(1<<40)))
		// preference for models: the smallest legal capacity
		r.soft = append(r.soft, mk("<=", sortBool, c, b.lens[len(b.lens)-1]))
		b.capT = c
		b.lens = nil
		return IntV{S: c}
	}
}
