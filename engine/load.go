package main

import (
	"fmt"
	"os"
	"path/filepath"
	"sort"
	"strings"
	"time"

	"golang.org/x/tools/go/packages"
	"golang.org/x/tools/go/ssa"
	"golang.org/x/tools/go/ssa/ssautil"
)

// Job is one symbolic exploration: an entry function of a harness, a size and the stub configuration.
type Job struct {
	Name        string
	Pkg         string // gtree | markdown | main
	Entry       string
	N           int
	FSModel     bool // os.* forwarded to the harness file-system model; path.Join etc. as element-level contracts
	Wasm        bool
	RealParse   bool     // byte-level: run the real Parser.Parse instead of its contract
	RealScan    bool     // byte-level: run the real bufio.Scanner / strings.Reader instead of the line-splitting contract
	MaxPaths    int      // 0 = unbounded
	MaxSteps    int      // per-path step budget (unwinding bound); 0 = default
	Expect      []string // assertion / reach ids that must be reached at least once (vacuity guard)
	NoNative    bool     // no native replay available for this job
	Sched       string   // goroutine scheduling policy: "" fifo | lifo | fifo-lastsel
	TimeoutMs   int      // per-query solver timeout
	BudgetSec   int      // wall-clock budget of the exploration (0: none); exceeding it leaves the job undecided
	Race        bool     // happens-before data-race detection on the interpreted goroutines (race.go)
	RaceConfirm string   // native-only entry run on a -race build to confirm race@ counterexamples (default VerifRaceStress)
	Confirm     string   // native-only entry that amplifies schedule-dependent counterexamples (leaks, deadlocks) for confirmation
}

func (j Job) String() string {
	s := fmt.Sprintf("%s n=%d pkg=%s", j.Entry, j.N, j.Pkg)
	if j.FSModel {
		s += " fsmodel"
	}
	if j.Wasm {
		s += " wasm"
	}
	if j.RealParse {
		s += " realparse"
	}
	if j.RealScan {
		s += " realscan"
	}
	if j.Sched != "" {
		s += " sched=" + j.Sched
	}
	if j.Race {
		s += " race"
	}
	return s
}

// Check is the registered machinery of one property.
type Check struct {
	ID       string
	Files    []string // harness files relative to /verif/harness; the package is the directory name
	Quick    []Job
	Thorough []Job
	Bounds   string
	Assume   []string
	// native-only entries run once per check run (empty model) to validate the contract of a stub against the real
	// library on a fixed set of concrete inputs; a failing assertion is reported like a witness failure
	NativeContracts []string
}

func pkgDirOf(pkg string) string {
	switch pkg {
	case "gtree":
		return repoDir
	case "markdown":
		return repoDir + "/markdown"
	case "main":
		return repoDir + "/cmd/gtree"
	}
	panic("unknown pkg " + pkg)
}

func pkgPathOf(pkg string) string {
	switch pkg {
	case "gtree":
		return modPath
	case "markdown":
		return modPath + "/markdown"
	case "main":
		return modPath + "/cmd/gtree"
	}
	panic("unknown pkg " + pkg)
}

func pkgClauseOf(pkg string) string {
	if pkg == "main" {
		return "main"
	}
	return pkg
}

type loaded struct {
	prog    *ssa.Program
	pkgs    map[string]*ssa.Package // by import path
	pkgSet  []string                // harness packages in use (gtree, markdown, main)
	loadDur time.Duration
	hasWasm bool
}

// harnessOverlay returns virtual-path -> content for the harness files of the check. native selects the native
// primitives and the *_native.go harness files; otherwise the bodiless primitives and *_sym.go files.
func harnessOverlay(c *Check, native bool) (map[string][]byte, []string, error) {
	ov := map[string][]byte{}
	pkgSeen := map[string]bool{}
	var pkgs []string
	for _, f := range c.Files {
		f = strings.TrimSpace(f)
		if f == "" {
			continue
		}
		pkg := filepath.Dir(f)
		base := filepath.Base(f)
		if native && strings.HasSuffix(base, "_sym.go") || !native && strings.HasSuffix(base, "_native.go") {
			continue
		}
		b, err := os.ReadFile(filepath.Join(harnessDir, f))
		if err != nil {
			return nil, nil, err
		}
		ov[filepath.Join(pkgDirOf(pkg), "zz_verif_"+base)] = b
		if !pkgSeen[pkg] {
			pkgSeen[pkg] = true
			pkgs = append(pkgs, pkg)
		}
	}
	sort.Strings(pkgs)
	for _, pkg := range pkgs {
		prim := "prims_sym.go"
		if native {
			prim = "prims_native.go"
		}
		b, err := os.ReadFile(filepath.Join(harnessDir, prim))
		if err != nil {
			return nil, nil, err
		}
		txt := strings.Replace(string(b), "package PKG", "package "+pkgClauseOf(pkg), 1)
		ov[filepath.Join(pkgDirOf(pkg), "zz_verif_prims.go")] = []byte(txt)
		if native {
			b, err := os.ReadFile(filepath.Join(harnessDir, "replay_test.go"))
			if err != nil {
				return nil, nil, err
			}
			txt := strings.Replace(string(b), "package PKG", "package "+pkgClauseOf(pkg), 1)
			ov[filepath.Join(pkgDirOf(pkg), "zz_verif_replay_test.go")] = []byte(txt)
		}
	}
	return ov, pkgs, nil
}

// wasmOverlay regenerates the tinywasm file set of the repository as package gtree/zz_verif_wasm: every
// non-test file of /repo whose build constraint holds under the tinywasm tag.
func wasmOverlay(ov map[string][]byte) error {
	files, _ := filepath.Glob(repoDir + "/*.go")
	n := 0
	for _, f := range files {
		if strings.HasSuffix(f, "_test.go") || strings.HasPrefix(filepath.Base(f), "zz_verif_") {
			continue
		}
		b, err := os.ReadFile(f)
		if err != nil {
			return err
		}
		txt := string(b)
		cons := ""
		for _, line := range strings.Split(txt, "\n") {
			t := strings.TrimSpace(line)
			if strings.HasPrefix(t, "//go:build") {
				cons = strings.TrimSpace(strings.TrimPrefix(t, "//go:build"))
				break
			}
			if strings.HasPrefix(t, "package ") {
				break
			}
		}
		switch cons {
		case "":
		case "tinywasm":
			txt = strings.Replace(txt, "//go:build tinywasm", "//go:build verif", 1)
		case "!tinywasm":
			continue
		default:
			return fmt.Errorf("wasm overlay: unknown build constraint %q in %s", cons, f)
		}
		ov[repoDir+"/zz_verif_wasm/"+filepath.Base(f)] = []byte(txt)
		n++
	}
	if n == 0 {
		return fmt.Errorf("wasm overlay: no files")
	}
	return nil
}

func load(c *Check, wasm bool) (*loaded, error) {
	t0 := time.Now()
	ov, pkgs, err := harnessOverlay(c, false)
	if err != nil {
		return nil, err
	}
	if wasm {
		if err := wasmOverlay(ov); err != nil {
			return nil, err
		}
	}
	var patterns []string
	for _, p := range pkgs {
		patterns = append(patterns, pkgPathOf(p))
	}
	cfg := &packages.Config{
		Mode:       packages.LoadAllSyntax,
		Dir:        repoDir,
		BuildFlags: []string{"-tags=verif"},
		Overlay:    ov,
		Env:        goEnv(),
	}
	ps, err := packages.Load(cfg, patterns...)
	if err != nil {
		return nil, err
	}
	nerr := 0
	packages.Visit(ps, nil, func(p *packages.Package) {
		for _, e := range p.Errors {
			fmt.Fprintln(os.Stderr, "load:", e)
			nerr++
		}
	})
	if nerr > 0 {
		return nil, fmt.Errorf("%d errors loading /repo with the harness overlay (the harness no longer type-checks against the tree)", nerr)
	}
	prog, _ := ssautil.AllPackages(ps, ssa.InstantiateGenerics)
	prog.Build()
	ld := &loaded{prog: prog, pkgs: map[string]*ssa.Package{}, pkgSet: pkgs, hasWasm: wasm}
	for _, p := range prog.AllPackages() {
		ld.pkgs[p.Pkg.Path()] = p
	}
	ld.loadDur = time.Since(t0)
	return ld, nil
}

var initAllow = []string{
	"internal/oserror", "io", "unicode/utf8", "strings", "bufio", "iter", "path", "internal/filepathlite", "io/fs", "path/filepath", "context",
	modPath + "/markdown", modPath, modPath + "/zz_verif_wasm", modPath + "/cmd/gtree",
}

func newEngine(ld *loaded, j *Job) *Engine {
	eng := &Engine{prog: ld.prog, intrinsics: map[string]intrinsicFn{}, maxSteps: 3000000, funcsSeen: map[string]bool{}, stubsUsed: map[string]bool{},
		initPkgs: map[string]bool{}, n: j.N, sched: j.Sched, race: j.Race}
	if j.MaxSteps > 0 {
		eng.maxSteps = j.MaxSteps
	}
	for _, p := range initAllow {
		if sp, ok := ld.pkgs[p]; ok {
			if p == modPath+"/cmd/gtree" && j.Pkg != "main" {
				continue
			}
			if p == "bufio" && !j.RealScan {
				continue
			}
			eng.initPkgs[p] = true
			eng.initOrder = append(eng.initOrder, sp)
		}
	}
	eng.registerIntrinsics()
	eng.registerConcIntrinsics()
	eng.registerFmtIntrinsics()
	eng.registerEncIntrinsics()
	if j.FSModel {
		eng.registerFSIntrinsics()
		eng.registerVerifyIntrinsics()
	}
	if j.RealParse {
		delete(eng.intrinsics, "(*"+modPath+"/markdown.Parser).Parse")
	}
	if j.RealScan {
		for _, n := range []string{"bufio.NewScanner", "(*bufio.Scanner).Scan", "(*bufio.Scanner).Text", "(*bufio.Scanner).Err", "strings.NewReader"} {
			delete(eng.intrinsics, n)
		}
	}
	if j.Pkg == "main" {
		eng.registerCLIIntrinsics()
	}
	// package initialisers outside the allow-list are no-ops
	for _, p := range ld.prog.AllPackages() {
		if !eng.initPkgs[p.Pkg.Path()] {
			if f := p.Func("init"); f != nil {
				eng.intrinsics[f.String()] = func(r *Run, fr *frame, a []Value) Value { return nil }
			}
		}
	}
	return eng
}
