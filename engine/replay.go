package main

import (
	"bytes"
	"context"
	"encoding/hex"
	"encoding/json"
	"fmt"
	"os"
	"os/exec"
	"path/filepath"
	"sort"
	"strings"
	"time"
)

// ConcreteModel is the solver's assignment for one path in the form the native harness reads.
type ConcreteModel struct {
	Entry string            `json:"entry"`
	N     int               `json:"n"`
	Strs  map[string]string `json:"strs"`
	Ints  map[string]uint64 `json:"ints"`
	Bools map[string]bool   `json:"bools"`
	// informational
	Property  string   `json:"property,omitempty"`
	Assertion string   `json:"assertion,omitempty"`
	Job       string   `json:"job,omitempty"`
	Pkg       string   `json:"pkg,omitempty"`
	Files     []string `json:"files,omitempty"`
	// native-only entry that confirms a race@ counterexample on a -race build when the model alone does not
	RaceConfirm string `json:"race_confirm,omitempty"`
}

func concretize(j *Job, raw map[string]string) (*ConcreteModel, error) {
	m := &ConcreteModel{Entry: j.Entry, N: j.N, Strs: map[string]string{}, Ints: map[string]uint64{}, Bools: map[string]bool{}, Pkg: j.Pkg}
	for k, v := range raw {
		switch {
		case strings.HasPrefix(k, "s_") || strings.HasPrefix(k, "row_") || strings.HasPrefix(k, "pj_") || strings.HasPrefix(k, "trim_"):
			b, ok := decodeSMTString(v)
			if !ok {
				return nil, fmt.Errorf("cannot decode string value %s=%s", k, v)
			}
			m.Strs[k] = hex.EncodeToString(b)
		case strings.HasPrefix(k, "b_"):
			m.Bools[k] = strings.TrimSpace(v) == "true"
		case strings.HasPrefix(k, "c_") || strings.HasPrefix(k, "u_") || strings.HasPrefix(k, "y_"):
			n, ok := decodeSMTBV(v)
			if !ok {
				return nil, fmt.Errorf("cannot decode bit-vector value %s=%s", k, v)
			}
			m.Ints[k] = n
		}
	}
	return m, nil
}

// NativeResult is what the native harness printed (see harness/prims_native.go).
type NativeResult struct {
	Entry        string            `json:"entry"`
	Failed       []string          `json:"failed"`
	Asserts      map[string]int    `json:"asserts"`
	Reached      map[string]int    `json:"reached"`
	Observed     map[string]string `json:"observed"`
	AssumeFailed bool              `json:"assume_failed"`
	Defaulted    []string          `json:"defaulted"`
	Panic        string            `json:"panic"`
	Context      string            `json:"context"`
	Notes        []string          `json:"notes"`
	// set by the driver
	Crash   string `json:"crash,omitempty"` // process died without a result line (panic in another goroutine, fatal error)
	Timeout bool   `json:"timeout,omitempty"`
	Err     string `json:"err,omitempty"`
	Race    string `json:"race,omitempty"` // the Go race detector's first report (binary built with -race)
}

func (n *NativeResult) summary() string {
	switch {
	case n.Err != "":
		return "replay error: " + n.Err
	case n.Timeout:
		return "TIMEOUT (call did not return)"
	case n.Crash != "":
		return "CRASH: " + firstLines(n.Crash, 3)
	case n.AssumeFailed:
		return "assumption failed natively (model does not follow the path)"
	case n.Race != "":
		return "DATA RACE reported by the Go race detector: " + n.Race
	case n.Panic != "":
		return "PANIC: " + firstLines(n.Panic, 2) + fmt.Sprintf(" failed=%v", n.Failed)
	}
	return fmt.Sprintf("ok failed=%v asserts=%d", n.Failed, len(n.Asserts))
}

func firstLines(s string, n int) string {
	ls := strings.Split(strings.TrimSpace(s), "\n")
	if len(ls) > n {
		ls = ls[:n]
	}
	return strings.Join(ls, " | ")
}

func (n *NativeResult) failedID(id string) bool {
	for _, f := range n.Failed {
		if f == id {
			return true
		}
	}
	return false
}

type replayer struct {
	dir      string
	bins     map[string]string
	ovPath   string
	raceBins map[string]string // built lazily with -race, only to confirm race@ counterexamples
}

// raceBin compiles the native harness of pkg with the Go race detector.
func (rp *replayer) raceBin(pkg string) (string, error) {
	if b, ok := rp.raceBins[pkg]; ok {
		return b, nil
	}
	bin := filepath.Join(rp.dir, pkg+".race.test")
	cmd := exec.Command("go", "test", "-c", "-race", "-tags", "verif", "-vet=off", "-overlay", rp.ovPath, "-o", bin, pkgPathOf(pkg))
	cmd.Dir = repoDir
	cmd.Env = append(os.Environ(), "CGO_ENABLED=1")
	out, err := cmd.CombinedOutput()
	if err != nil {
		return "", fmt.Errorf("go test -c -race %s: %v\n%s", pkg, err, out)
	}
	if rp.raceBins == nil {
		rp.raceBins = map[string]string{}
	}
	rp.raceBins[pkg] = bin
	return bin, nil
}

// runRace runs the model on the -race binary (a few times: which accesses overlap is up to the real scheduler, but
// the detector reports unordered accesses even when they do not overlap in time).
func (rp *replayer) runRace(j *Job, raw map[string]string) *NativeResult {
	m, err := concretize(j, raw)
	if err != nil {
		return &NativeResult{Err: err.Error()}
	}
	bin, err := rp.raceBin(m.Pkg)
	if err != nil {
		return &NativeResult{Err: err.Error()}
	}
	var res *NativeResult
	for try := 0; try < 3; try++ {
		res = rp.runModelBin(m, bin)
		if res.Race != "" || res.Err != "" {
			break
		}
	}
	return res
}

func goEnv() []string {
	return append(os.Environ(), "CGO_ENABLED=0")
}

// newReplayer compiles, from /repo's current working tree plus the native harness overlay, one test binary per
// harness package of the check.
func newReplayer(c *Check, ld *loaded, only map[string]bool) (*replayer, error) {
	dir, err := os.MkdirTemp("", "verif-replay-")
	if err != nil {
		return nil, err
	}
	rp := &replayer{dir: dir, bins: map[string]string{}}
	rp.ovPath = filepath.Join(dir, "overlay.json")
	ov, pkgs, err := harnessOverlay(c, true)
	if err != nil {
		rp.close()
		return nil, err
	}
	if ld != nil && ld.hasWasm {
		if err := wasmOverlay(ov); err != nil {
			rp.close()
			return nil, err
		}
	}
	repl := map[string]string{}
	i := 0
	for virt, content := range ov {
		real := filepath.Join(dir, fmt.Sprintf("ov%d_%s", i, filepath.Base(virt)))
		i++
		if err := os.WriteFile(real, content, 0o644); err != nil {
			rp.close()
			return nil, err
		}
		repl[virt] = real
	}
	ovj, _ := json.Marshal(map[string]any{"Replace": repl})
	ovPath := rp.ovPath
	os.WriteFile(ovPath, ovj, 0o644)
	for _, pkg := range pkgs {
		if only != nil && !only[pkg] {
			continue // no job of this package has a native side
		}
		bin := filepath.Join(dir, pkg+".test")
		cmd := exec.Command("go", "test", "-c", "-tags", "verif", "-vet=off", "-overlay", ovPath, "-o", bin, pkgPathOf(pkg))
		cmd.Dir = repoDir
		cmd.Env = goEnv()
		out, err := cmd.CombinedOutput()
		if err != nil {
			rp.close()
			return nil, fmt.Errorf("go test -c %s: %v\n%s", pkg, err, out)
		}
		rp.bins[pkg] = bin
	}
	return rp, nil
}

func (rp *replayer) close() {
	if rp != nil && rp.dir != "" {
		os.RemoveAll(rp.dir)
	}
}

func (rp *replayer) run(j *Job, raw map[string]string) *NativeResult {
	m, err := concretize(j, raw)
	if err != nil {
		return &NativeResult{Err: err.Error()}
	}
	return rp.runModel(m)
}

var replaySeq int

func (rp *replayer) runModel(m *ConcreteModel) *NativeResult {
	bin := rp.bins[m.Pkg]
	if bin == "" {
		return &NativeResult{Err: "no native binary for package " + m.Pkg}
	}
	return rp.runModelBin(m, bin)
}

func (rp *replayer) runModelBin(m *ConcreteModel, bin string) *NativeResult {
	replaySeq++
	work, err := os.MkdirTemp(rp.dir, "run")
	if err != nil {
		return &NativeResult{Err: err.Error()}
	}
	defer os.RemoveAll(work)
	mp := filepath.Join(work, "model.json")
	b, _ := json.Marshal(m)
	os.WriteFile(mp, b, 0o644)
	cwd := filepath.Join(work, "cwd")
	os.Mkdir(cwd, 0o755)
	ctx, cancel := context.WithTimeout(context.Background(), 60*time.Second)
	defer cancel()
	cmd := exec.CommandContext(ctx, bin, "-test.run", "^TestVerifReplay$", "-test.count=1", "-test.timeout=45s")
	cmd.Dir = cwd
	cmd.Env = append(os.Environ(), "VERIF_MODEL="+mp, "VERIF_JAIL="+work, "NO_COLOR=1")
	var out bytes.Buffer
	cmd.Stdout = &out
	cmd.Stderr = &out
	runErr := cmd.Run()
	res := &NativeResult{}
	race := ""
	if i := strings.Index(out.String(), "WARNING: DATA RACE"); i >= 0 {
		race = raceSummary(out.String()[i:])
	}
	for _, line := range strings.Split(out.String(), "\n") {
		if strings.HasPrefix(line, "VERIF-RESULT ") {
			if err := json.Unmarshal([]byte(strings.TrimPrefix(line, "VERIF-RESULT ")), res); err != nil {
				res.Err = "bad result line: " + err.Error()
			}
			res.Race = race
			return res
		}
	}
	res.Race = race
	if ctx.Err() != nil || strings.Contains(out.String(), "panic: test timed out") {
		res.Timeout = true
		res.Crash = tail(out.String(), 30)
		return res
	}
	if runErr != nil {
		res.Crash = tail(out.String(), 40)
		return res
	}
	res.Err = "no result line: " + tail(out.String(), 10)
	return res
}

// raceSummary: the two access lines and their top frames from a race detector report
func raceSummary(rep string) string {
	var keep []string
	ls := strings.Split(rep, "\n")
	for i, l := range ls {
		t := strings.TrimSpace(l)
		if strings.HasPrefix(t, "Write at") || strings.HasPrefix(t, "Read at") || strings.HasPrefix(t, "Previous write at") || strings.HasPrefix(t, "Previous read at") {
			fn := ""
			if i+1 < len(ls) {
				fn = strings.TrimSpace(ls[i+1])
			}
			if j := strings.Index(t, " at 0x"); j >= 0 {
				t = t[:j]
			}
			keep = append(keep, t+" in "+fn)
		}
		if len(keep) == 2 {
			break
		}
	}
	if len(keep) == 0 {
		return "DATA RACE"
	}
	return strings.Join(keep, "; ")
}

func tail(s string, n int) string {
	ls := strings.Split(strings.TrimSpace(s), "\n")
	if len(ls) > n {
		ls = ls[len(ls)-n:]
	}
	return strings.Join(ls, "\n")
}

// compareObserved compares the values the engine predicted for a sampled path with what the real build produced.
func compareObserved(s *Sample, n *NativeResult) string {
	if n.Err != "" || n.Timeout || n.Crash != "" || n.Panic != "" || n.AssumeFailed {
		return n.summary()
	}
	if len(n.Failed) > 0 {
		return fmt.Sprintf("native assertions failed on a path the engine discharged: %v", n.Failed)
	}
	var ks []string
	for k := range s.Observed {
		ks = append(ks, k)
	}
	sort.Strings(ks)
	for _, k := range ks {
		want := s.Observed[k]
		got, ok := n.Observed[k]
		if !ok {
			return "observation " + k + " missing natively"
		}
		if want == "?" {
			continue
		}
		if !sameObserved(want, got) {
			return fmt.Sprintf("observation %s: engine %s, real build %s", k, want, got)
		}
	}
	return ""
}

// engine side renders ints/bools as text and strings as hex; native side renders everything as hex of the string.
func sameObserved(want, got string) bool {
	if want == got {
		return true
	}
	if b, err := hex.DecodeString(got); err == nil && string(b) == want {
		return true
	}
	return false
}

func runReplayCmd(path string) int {
	b, err := os.ReadFile(path)
	if err != nil {
		fmt.Fprintln(os.Stderr, err)
		return 2
	}
	var m ConcreteModel
	if err := json.Unmarshal(b, &m); err != nil {
		fmt.Fprintln(os.Stderr, err)
		return 2
	}
	if m.Pkg == "main" {
		cr, err := newCLIReplayer()
		if err != nil {
			fmt.Fprintln(os.Stderr, err)
			return 2
		}
		defer cr.close()
		raw := map[string]string{}
		res := cr.runConcrete(&Job{Entry: m.Entry, Pkg: "main", N: m.N}, &m, m.Assertion)
		_ = raw
		out, _ := json.MarshalIndent(res, "", "  ")
		fmt.Println(string(out))
		if confirms(res, m.Assertion) {
			fmt.Printf("VIOLATION property=%s replay=%s\n", m.Property, path)
			return 1
		}
		fmt.Println("not reproduced")
		return 0
	}
	c := &Check{ID: m.Property, Files: m.Files}
	rp, err := newReplayer(c, &loaded{hasWasm: strings.Contains(strings.Join(m.Files, ","), "c17")}, map[string]bool{m.Pkg: true})
	if err != nil {
		fmt.Fprintln(os.Stderr, err)
		return 2
	}
	defer rp.close()
	res := rp.runModel(&m)
	if strings.HasPrefix(m.Assertion, "race@") {
		// a data race: the model (and, if it does not force the schedule, the amplified scenario) on a -race build
		if bin, err := rp.raceBin(m.Pkg); err == nil {
			res = rp.runModelBin(&m, bin)
			if res.Race == "" {
				m2 := m
				m2.Entry = "VerifRaceStress"
				if m.RaceConfirm != "" {
					m2.Entry = m.RaceConfirm
				}
				res = rp.runModelBin(&m2, bin)
			}
		}
	}
	out, _ := json.MarshalIndent(res, "", "  ")
	fmt.Println(string(out))
	if confirms(res, m.Assertion) {
		fmt.Printf("VIOLATION property=%s replay=%s\n", m.Property, path)
		return 1
	}
	fmt.Println("not reproduced")
	return 0
}

// confirms tells whether the native run exhibits the violation the engine reported under id.
func confirms(n *NativeResult, id string) bool {
	if n.Err != "" || n.AssumeFailed {
		return false
	}
	switch {
	case strings.HasPrefix(id, "race@"):
		return n.Race != ""
	case strings.HasPrefix(id, "panic@"):
		return n.Panic != "" || (n.Crash != "" && !n.Timeout)
	case strings.HasPrefix(id, "deadlock@"), strings.HasPrefix(id, "unwind@"):
		return n.Timeout
	}
	return n.failedID(id)
}
