package main

import (
	"go/types"
)

// Encoder stubs for encoding/json, gopkg.in/yaml.v3 and go-toml/v2 (reflection-based libraries the engine
// cannot encode). NewEncoder(w) returns a host object; Encode(v) walks the {value, children} record it is given,
// renders it in a neutral bracket notation  {name[child child ...]}  followed by a newline and hands it to the
// writer's real Write method in ONE call. Quoting/escaping of names is the libraries' contract and outside every
// claim; the native replay uses the real encoders and decodes their bytes.

type encoderObj struct {
	w    Iface
	kind string
	n    int // Encode calls so far on this encoder
}

func (e *Engine) registerEncIntrinsics() {
	in := e.intrinsics
	mkNew := func(kind string) intrinsicFn {
		return func(r *Run, fr *frame, a []Value) Value {
			slot := new(Value)
			*slot = &encoderObj{w: a[0].(Iface), kind: kind}
			return Ptr(slot)
		}
	}
	enc := func(r *Run, fr *frame, a []Value) Value {
		p, ok := a[0].(Ptr)
		if !ok || p == nil {
			panic(goPanic{strLit("nil encoder")})
		}
		eo := (*p).(*encoderObj)
		s := concatStr(r.renderRecord(a[1]), strLit("\n"))
		if eo.kind == "yaml" && eo.n > 0 {
			// yaml.v3: every document after the first one of an encoder is preceded by the separator line
			s = concatStr(strLit("---\n"), s)
		}
		eo.n++
		m := r.eng.prog.LookupMethod(eo.w.T, nil, "Write")
		if m == nil {
			panic(unsupported("Write method not found on %v", eo.w.T))
		}
		res := r.callFunc(fr, m, []Value{eo.w.V, BytesOf{S: s}}, nil).(Tuple)
		return res[1]
	}
	in["encoding/json.NewEncoder"] = mkNew("json")
	in["(*encoding/json.Encoder).Encode"] = enc
	in["gopkg.in/yaml.v3.NewEncoder"] = mkNew("yaml")
	in["(*gopkg.in/yaml.v3.Encoder).Encode"] = enc
	// fatih/color under NoColor: New returns an inert object, Sprint is fmt.Sprint of its string operands
	in["github.com/fatih/color.New"] = func(r *Run, fr *frame, a []Value) Value {
		slot := new(Value)
		*slot = zero(r.eng.prog.ImportedPackage("github.com/fatih/color").Type("Color").Type())
		return Ptr(slot)
	}
	in["(*github.com/fatih/color.Color).Sprint"] = func(r *Run, fr *frame, a []Value) Value {
		s := StrV{}
		for _, e := range a[1].(SliceV).Data {
			sv, ok := e.(Iface).V.(StrV)
			if !ok {
				panic(unsupported("color.Sprint of non-string"))
			}
			s = concatStr(s, sv)
		}
		return s
	}
	in["github.com/pelletier/go-toml/v2.NewEncoder"] = mkNew("toml")
	in["(*github.com/pelletier/go-toml/v2.Encoder).Encode"] = enc
}

// renderRecord renders a *struct{Name string; Children []*same} value (possibly wrapped in an interface).
func (r *Run) renderRecord(v Value) StrV {
	if i, ok := v.(Iface); ok {
		if i.T == nil {
			return strLit("<nil>")
		}
		v = i.V
	}
	p, ok := v.(Ptr)
	if !ok {
		panic(unsupported("encoder stub: value of type %T", v))
	}
	if p == nil {
		return strLit("<nil>")
	}
	st, ok := (*p).(Struct)
	if !ok || len(st) != 2 {
		panic(unsupported("encoder stub: not a {value, children} record"))
	}
	name, ok := st[0].(StrV)
	if !ok {
		panic(unsupported("encoder stub: first field is not a string"))
	}
	out := concatStr(strLit("{"), name)
	out = concatStr(out, strLit("["))
	ch, ok := st[1].(SliceV)
	if !ok {
		panic(unsupported("encoder stub: second field is not a slice"))
	}
	for i, c := range ch.Data {
		if i > 0 {
			out = concatStr(out, strLit(" "))
		}
		out = concatStr(out, r.renderRecord(c))
	}
	return concatStr(out, strLit("]}"))
}

var _ = types.Typ
