package main

import (
	"go/types"
	"strings"
)

// Encoder stubs for encoding/json, gopkg.in/yaml.v3 and go-toml/v2 (reflection-based libraries the engine
// cannot encode). NewEncoder(w) returns a host object; Encode(v) walks the {value, children} record it is given,
// renders it in a neutral bracket notation  {name[child child ...]}  followed by a newline and hands it to the
// writer's real Write method in ONE call. Quoting/escaping of names is the libraries' contract and outside every
// claim; the native replay uses the real encoders and decodes their bytes.

type encoderObj struct {
	w    Iface
	kind string
	n    int // Encode calls so far on this encoder
	// settings (their documented effect on the bytes is part of the stub's contract):
	noEscapeHTML bool   // json SetEscapeHTML(false): differs from the default iff some name holds '<', '>' or '&'
	layout       string // json SetIndent / yaml SetIndent / toml SetIndentTables...: a non-default layout differs for every record
}

func (e *Engine) registerEncIntrinsics() {
	in := e.intrinsics
	mkNew := func(kind string) intrinsicFn {
		return func(r *Run, fr *frame, a []Value) Value {
			slot := new(Value)
			*slot = &encoderObj{w: a[0].(Iface), kind: kind}
			return Ptr(slot)
		}
	}
	enc := func(r *Run, fr *frame, a []Value) Value {
		p, ok := a[0].(Ptr)
		if !ok || p == nil {
			panic(goPanic{strLit("nil encoder")})
		}
		eo := (*p).(*encoderObj)
		s := concatStr(r.renderRecord(a[1]), strLit("\n"))
		if eo.layout != "" {
			s = concatStr(strLit("<layout "+eo.layout+">"), s)
		}
		if eo.noEscapeHTML {
			if t := r.recordHasAny(a[1], "<>&"); t != nil && (t.Op == "true" || (t.Op != "false" && r.branch(t))) {
				s = concatStr(strLit("<html-unescaped>"), s)
			}
		}
		if eo.kind == "yaml" && eo.n > 0 {
			// yaml.v3: every document after the first one of an encoder is preceded by the separator line
			s = concatStr(strLit("---\n"), s)
		}
		eo.n++
		m := r.eng.prog.LookupMethod(eo.w.T, nil, "Write")
		if m == nil {
			panic(unsupported("Write method not found on %v", eo.w.T))
		}
		res := r.callFunc(fr, m, []Value{eo.w.V, BytesOf{S: s}}, nil).(Tuple)
		return res[1]
	}
	setting := func(f func(eo *encoderObj, r *Run, a []Value)) intrinsicFn {
		return func(r *Run, fr *frame, a []Value) Value {
			p, ok := a[0].(Ptr)
			if !ok || p == nil {
				panic(goPanic{strLit("nil encoder")})
			}
			f((*p).(*encoderObj), r, a)
			return nil
		}
	}
	in["(*encoding/json.Encoder).SetEscapeHTML"] = setting(func(eo *encoderObj, r *Run, a []Value) {
		b := a[1].(BoolV)
		on := b.C
		if b.S != nil {
			on = r.branch(b.S)
		}
		eo.noEscapeHTML = !on
	})
	in["(*encoding/json.Encoder).SetIndent"] = setting(func(eo *encoderObj, r *Run, a []Value) {
		pre, ind := a[1].(StrV), a[2].(StrV)
		if !pre.isConcrete() || !ind.isConcrete() {
			panic(unsupported("json SetIndent with symbolic strings"))
		}
		eo.layout = ""
		if pre.concrete() != "" || ind.concrete() != "" {
			eo.layout = "json " + pre.concrete() + "|" + ind.concrete()
		}
	})
	in["(*gopkg.in/yaml.v3.Encoder).SetIndent"] = setting(func(eo *encoderObj, r *Run, a []Value) {
		n := r.concreteInt(a[1], "yaml indent")
		eo.layout = ""
		if n != 4 && n >= 0 {
			eo.layout = "yaml " + string(rune('0'+n%10))
		}
	})
	in["encoding/json.NewEncoder"] = mkNew("json")
	in["(*encoding/json.Encoder).Encode"] = enc
	in["gopkg.in/yaml.v3.NewEncoder"] = mkNew("yaml")
	in["(*gopkg.in/yaml.v3.Encoder).Encode"] = enc
	// fatih/color under NoColor: New returns an inert object, Sprint is fmt.Sprint of its string operands
	in["github.com/fatih/color.New"] = func(r *Run, fr *frame, a []Value) Value {
		slot := new(Value)
		*slot = zero(r.eng.prog.ImportedPackage("github.com/fatih/color").Type("Color").Type())
		return Ptr(slot)
	}
	in["(*github.com/fatih/color.Color).Sprint"] = func(r *Run, fr *frame, a []Value) Value {
		s := StrV{}
		for _, e := range a[1].(SliceV).Data {
			sv, ok := e.(Iface).V.(StrV)
			if !ok {
				panic(unsupported("color.Sprint of non-string"))
			}
			s = concatStr(s, sv)
		}
		return s
	}
	in["github.com/pelletier/go-toml/v2.NewEncoder"] = mkNew("toml")
	in["(*github.com/pelletier/go-toml/v2.Encoder).Encode"] = enc
}

// recordHasAny: some name of the record contains one of the characters (a Bool term; nil for a nil record)
func (r *Run) recordHasAny(v Value, chars string) *Term {
	if i, ok := v.(Iface); ok {
		if i.T == nil {
			return mkBool(false)
		}
		v = i.V
	}
	p, ok := v.(Ptr)
	if !ok || p == nil {
		return mkBool(false)
	}
	st, ok := (*p).(Struct)
	if !ok || len(st) != 2 {
		return mkBool(false)
	}
	t := mkBool(false)
	name := st[0].(StrV)
	for _, g := range name.Segs {
		switch {
		case g.Atom != nil:
			for _, c := range chars {
				t = mkOr(t, mk("str.contains", sortBool, g.Atom, mkStrLit(string(c))))
			}
		case g.Byte != nil:
			for _, c := range chars {
				t = mkOr(t, mkEq(g.Byte, mkBV(uint64(c), 8)))
			}
		default:
			if strings.ContainsAny(g.Lit, chars) {
				return mkBool(true)
			}
		}
	}
	if ch, ok := st[1].(SliceV); ok {
		for _, c := range ch.Data {
			t = mkOr(t, r.recordHasAny(c, chars))
		}
	}
	return t
}

// renderRecord renders a *struct{Name string; Children []*same} value (possibly wrapped in an interface).
func (r *Run) renderRecord(v Value) StrV {
	if i, ok := v.(Iface); ok {
		if i.T == nil {
			return strLit("<nil>")
		}
		v = i.V
	}
	p, ok := v.(Ptr)
	if !ok {
		panic(unsupported("encoder stub: value of type %T", v))
	}
	if p == nil {
		return strLit("<nil>")
	}
	st, ok := (*p).(Struct)
	if !ok || len(st) != 2 {
		panic(unsupported("encoder stub: not a {value, children} record"))
	}
	name, ok := st[0].(StrV)
	if !ok {
		panic(unsupported("encoder stub: first field is not a string"))
	}
	out := concatStr(strLit("{"), name)
	out = concatStr(out, strLit("["))
	ch, ok := st[1].(SliceV)
	if !ok {
		panic(unsupported("encoder stub: second field is not a slice"))
	}
	for i, c := range ch.Data {
		if i > 0 {
			out = concatStr(out, strLit(" "))
		}
		out = concatStr(out, r.renderRecord(c))
	}
	return concatStr(out, strLit("]}"))
}

var _ = types.Typ
