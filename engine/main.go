package main

import (
	"flag"
	"fmt"
	"os"
	"runtime/pprof"
	"strings"
)

// repoDir is /repo for every registered check; VERIF_REPO points the machinery at a scratch copy (used only while
// developing, to try seeded changes without touching /repo).
var repoDir = func() string {
	if d := os.Getenv("VERIF_REPO"); d != "" {
		return d
	}
	return "/repo"
}()

// verifDir is /verif for every registered check; VERIF_DIR points at a snapshot of it (background runs started with
// `vp run`, which must not write into /verif while it is being edited).
var verifDir = func() string {
	if d := os.Getenv("VERIF_DIR"); d != "" {
		return d
	}
	return "/verif"
}()
var harnessDir = verifDir + "/harness"

const modPath = "github.com/ddddddO/gtree"

func usage() {
	fmt.Fprintln(os.Stderr, `usage:
  gosym check <ID> quick|thorough     run the registered check of a property
  gosym job [flags]                   run one ad-hoc job (development)
  gosym replay <model.json>           re-run one counterexample natively against the real build
  gosym list                          list the registered checks`)
	os.Exit(2)
}

func main() {
	// the repository needs go >= 1.24: the newer toolchain is put first for go list / go test children
	os.Setenv("PATH", "/opt/veriftools/go1.26.8/bin:"+os.Getenv("PATH"))
	for _, kv := range []string{"GOFLAGS=-mod=mod", "GOPROXY=off", "GOSUMDB=off", "GOTOOLCHAIN=local"} {
		p := strings.SplitN(kv, "=", 2)
		os.Setenv(p[0], p[1])
	}
	if len(os.Args) < 2 {
		usage()
	}
	switch os.Args[1] {
	case "check":
		if len(os.Args) < 4 {
			usage()
		}
		os.Exit(runCheck(os.Args[2], os.Args[3]))
	case "job":
		os.Exit(runAdhoc(os.Args[2:]))
	case "replay":
		if len(os.Args) < 3 {
			usage()
		}
		os.Exit(runReplayCmd(os.Args[2]))
	case "list":
		for _, c := range allChecks() {
			fmt.Printf("%s  files=%s\n", c.ID, strings.Join(c.Files, ","))
			for _, j := range c.Quick {
				fmt.Printf("   quick    %s\n", j)
			}
			for _, j := range c.Thorough {
				fmt.Printf("   thorough %s\n", j)
			}
		}
	default:
		usage()
	}
}

func runAdhoc(args []string) int {
	fs := flag.NewFlagSet("job", flag.ExitOnError)
	var j Job
	files := fs.String("files", "", "comma-separated harness files relative to /verif/harness (e.g. gtree/common.go,gtree/c01.go)")
	fs.StringVar(&j.Pkg, "pkg", "gtree", "gtree | markdown | main")
	fs.StringVar(&j.Entry, "entry", "", "entry function")
	fs.IntVar(&j.N, "n", 3, "size parameter")
	fs.BoolVar(&j.FSModel, "fsmodel", false, "file-system model + atom-level path contracts")
	fs.BoolVar(&j.Wasm, "wasm", false, "compile the tinywasm variant as a second package")
	fs.BoolVar(&j.RealParse, "realparse", false, "do not stub Parser.Parse")
	fs.BoolVar(&j.RealScan, "realscan", false, "do not stub bufio.Scanner / strings.Reader")
	fs.BoolVar(&j.Race, "race", false, "happens-before data-race detection")
	fs.IntVar(&j.MaxPaths, "maxpaths", 0, "path cap (0 = none)")
	fs.StringVar(&j.Sched, "sched", "", "goroutine scheduling policy: fifo (default), lifo, fifo-lastsel, lifo-lastsel")
	workers := fs.Int("workers", 16, "parallel workers")
	verbose := fs.Bool("v", false, "verbose")
	replayN := fs.Int("replay", 0, "number of witness paths to replay natively")
	cpuprof := fs.String("cpuprofile", "", "write a CPU profile (development)")
	fs.Parse(args)
	if *cpuprof != "" {
		f, err := os.Create(*cpuprof)
		if err == nil {
			pprof.StartCPUProfile(f)
			defer pprof.StopCPUProfile()
		}
	}
	j.Name = j.Entry
	c := &Check{ID: "ADHOC", Files: strings.Split(*files, ",")}
	ld, err := load(c, j.Wasm)
	if err != nil {
		fmt.Fprintln(os.Stderr, err)
		return 2
	}
	res := explore(ld, &j, *workers, 1, *verbose)
	res.print(os.Stdout, *verbose)
	if *replayN > 0 {
		rp, err := newReplayer(c, ld, nil)
		if err != nil {
			fmt.Fprintln(os.Stderr, "replay build failed:", err)
			return 2
		}
		defer rp.close()
		n := 0
		for _, s := range res.Samples {
			if n >= *replayN {
				break
			}
			out := rp.run(&j, s.Model)
			fmt.Printf("witness replay: %s\n", out.summary())
			if d := compareObserved(s, out); d != "" {
				fmt.Printf("   DISAGREEMENT %s\n", d)
			}
			n++
		}
		for i, v := range res.Violations {
			if i >= *replayN {
				break
			}
			out := rp.run(&j, v.Model)
			fmt.Printf("violation %s replay: %s\n", v.ID, out.summary())
		}
	}
	if len(res.Violations) > 0 {
		return 1
	}
	return 0
}
