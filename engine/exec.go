package main

import (
	"fmt"
	"go/token"
	"go/types"
	"sort"
	"strings"
	"sync"
	"sync/atomic"

	"golang.org/x/tools/go/ssa"
)

type goPanic struct{ v Value }      // interpreted panic
type abortPath struct{ why string } // path ends (pruned / finished early)

type deferred struct {
	fn   Value
	args []Value
}

type frame struct {
	run    *Run
	fn     *ssa.Function
	env    map[ssa.Value]Value
	block  *ssa.BasicBlock
	prev   *ssa.BasicBlock
	defers []deferred
	result Value
	locals []Value
	user   bool // executing harness ("user") code: callbacks, reader/writer, file-system model (see race.go)
}

type intrinsicFn func(r *Run, fr *frame, args []Value) Value

type Engine struct {
	prog         *ssa.Program
	intrinsics   map[string]intrinsicFn
	initPkgs     map[string]bool
	initOrder    []*ssa.Package
	maxSteps     int
	trace        bool
	n            int
	sched        string
	race         bool // happens-before data-race detection (race.go)
	unsupSamples atomic.Int32
	fnCache      sync.Map // *ssa.Function -> *fnInfo
	seenMu       sync.Mutex
	funcsSeen    map[string]bool
	stubsUsed    map[string]bool
}

type fnInfo struct {
	name  string
	in    intrinsicFn
	class int // 0 other (std, dependencies), 1 harness, 2 repository
}

func (e *Engine) info(fn *ssa.Function) *fnInfo {
	if v, ok := e.fnCache.Load(fn); ok {
		return v.(*fnInfo)
	}
	fi := &fnInfo{name: fn.String(), class: e.fnClass(fn)}
	stub := ""
	if in, ok := e.intrinsics[fi.name]; ok {
		fi.in, stub = in, fi.name
	} else if o := fn.Origin(); o != nil {
		if in, ok := e.intrinsics[o.String()]; ok {
			fi.in, stub = in, o.String()
		}
	}
	e.seenMu.Lock()
	if stub != "" {
		e.stubsUsed[stub] = true
	} else if fn.Blocks != nil {
		e.funcsSeen[fi.name] = true
	}
	e.seenMu.Unlock()
	e.fnCache.Store(fn, fi)
	return fi
}

func (e *Engine) noteFunc(name string) {
	e.seenMu.Lock()
	e.funcsSeen[name] = true
	e.seenMu.Unlock()
}

func (fr *frame) get(v ssa.Value) Value {
	switch v := v.(type) {
	case nil:
		return nil
	case *ssa.Const:
		return constValue(v)
	case *ssa.Function:
		return &Closure{Fn: v}
	case *ssa.Builtin:
		return &Builtin{Name: v.Name()}
	case *ssa.Global:
		return fr.run.global(v)
	}
	if r, ok := fr.env[v]; ok {
		return r
	}
	panic(fmt.Sprintf("get: no value for %T %s in %s", v, v.Name(), fr.fn))
}

func (r *Run) global(g *ssa.Global) Ptr {
	if p, ok := r.globals[g]; ok {
		return p
	}
	p := new(Value)
	*p = zero(g.Type().(*types.Pointer).Elem())
	r.globals[g] = p
	return p
}

func (r *Run) call(fr *frame, fnv Value, args []Value) Value {
	switch fn := fnv.(type) {
	case *Closure:
		if fn == nil {
			panic(goPanic{strLit("call of nil func")})
		}
		return r.callFunc(fr, fn.Fn, args, fn.Env)
	case *Builtin:
		return r.callBuiltin(fr, fn.Name, args)
	case *hostFunc:
		return fn.f(r, fr, args)
	}
	panic(fmt.Sprintf("call of %T", fnv))
}

type hostFunc struct {
	name string
	f    intrinsicFn
}

func (r *Run) callFunc(caller *frame, fn *ssa.Function, args []Value, env []Value) Value {
	fi := r.eng.info(fn)
	if fi.in != nil {
		return fi.in(r, caller, args)
	}
	if fn.Blocks == nil {
		panic(unsupported("external function without model: %s", fi.name))
	}
	fr := &frame{run: r, fn: fn, env: make(map[ssa.Value]Value)}
	switch fi.class {
	case 1:
		fr.user = true
		if r.eng.race && caller != nil && !caller.user && fn.Name() == "Write" && len(args) > 0 {
			// the library writes to the caller's io.Writer: a write access to the writer (not required to be thread-safe)
			if p, ok := args[0].(Ptr); ok {
				r.raceAccess(writerKey{p}, true, caller, nil)
			}
		}
	case 0:
		fr.user = caller != nil && caller.user
	}
	for i, p := range fn.Params {
		fr.env[p] = args[i]
	}
	for i, fv := range fn.FreeVars {
		fr.env[fv] = env[i]
	}
	return fr.exec()
}

func (fr *frame) exec() (result Value) {
	fr.block = fr.fn.Blocks[0]
	defer func() {
		if p := recover(); p != nil {
			// run deferred calls on the way out of a panicking frame (no recover() support needed by targets)
			if _, isGo := p.(goPanic); isGo {
				fr.runDefers()
			}
			panic(p)
		}
	}()
	for {
		if fr.trace() {
			fmt.Printf("  .%s.%d\n", fr.fn, fr.block.Index)
		}
	block:
		for _, instr := range fr.block.Instrs {
			fr.run.steps++
			if fr.run.steps > fr.run.eng.maxSteps {
				panic(abortPath{"step budget exceeded (unwinding bound)"})
			}
			switch fr.visit(instr) {
			case kReturn:
				return fr.result
			case kJump:
				break block
			}
		}
	}
}

func (fr *frame) trace() bool { return fr.run.eng.trace }

type cont int

const (
	kNext cont = iota
	kReturn
	kJump
)

func (fr *frame) runDefers() {
	for len(fr.defers) > 0 {
		d := fr.defers[len(fr.defers)-1]
		fr.defers = fr.defers[:len(fr.defers)-1]
		fr.run.call(fr, d.fn, d.args)
	}
}

func (fr *frame) jump(b *ssa.BasicBlock) cont {
	fr.prev, fr.block = fr.block, b
	return kJump
}

func (fr *frame) visit(instr ssa.Instruction) cont {
	r := fr.run
	switch instr := instr.(type) {
	case *ssa.DebugRef:
	case *ssa.UnOp:
		if g, ok := instr.X.(*ssa.Global); ok && instr.Op == token.MUL && !r.eng.initPkgs[g.Pkg.Pkg.Path()] && !r.gwritten[g] {
			// never a silent zero value: the package's initialiser was not run
			panic(unsupported("read of global %s (initialiser of its package is not executed)", g))
		}
		if instr.Op == token.MUL && r.eng.race {
			if p, ok := fr.get(instr.X).(Ptr); ok {
				r.raceCell(p, false, fr, instr)
			}
		}
		fr.env[instr] = r.unop(instr, fr.get(instr.X))
	case *ssa.BinOp:
		fr.env[instr] = r.binopT(instr.Op, instr.X.Type(), instr.Y.Type(), fr.get(instr.X), fr.get(instr.Y))
	case *ssa.Call:
		fn, args := fr.prepareCall(&instr.Call)
		fr.env[instr] = r.call(fr, fn, args)
	case *ssa.ChangeInterface:
		fr.env[instr] = fr.get(instr.X)
	case *ssa.ChangeType:
		fr.env[instr] = fr.get(instr.X)
	case *ssa.Convert:
		if r.eng.race {
			if sl, ok := fr.get(instr.X).(SliceV); ok && r.raceOn() && !fr.user {
				// string(b): every element of b is read
				for i := range sl.Data {
					r.raceAccess(&sl.Data[i], false, fr, instr)
				}
			}
		}
		fr.env[instr] = r.conv(instr.Type(), instr.X.Type(), fr.get(instr.X))
	case *ssa.MakeInterface:
		fr.env[instr] = Iface{T: instr.X.Type(), V: fr.get(instr.X)}
	case *ssa.Extract:
		fr.env[instr] = fr.get(instr.Tuple).(Tuple)[instr.Index]
	case *ssa.Slice:
		fr.env[instr] = r.slice(instr, fr.get(instr.X), fr.get(instr.Low), fr.get(instr.High), fr.get(instr.Max))
	case *ssa.Return:
		switch len(instr.Results) {
		case 0:
		case 1:
			fr.result = fr.get(instr.Results[0])
		default:
			var res Tuple
			for _, x := range instr.Results {
				res = append(res, fr.get(x))
			}
			fr.result = res
		}
		return kReturn
	case *ssa.RunDefers:
		fr.runDefers()
	case *ssa.Panic:
		panic(goPanic{fr.get(instr.X)})
	case *ssa.MakeChan:
		fr.env[instr] = &ChanV{cap: r.concreteInt(fr.get(instr.Size), "chan size")}
	case *ssa.Send:
		r.chanSend(fr.get(instr.Chan).(*ChanV), fr.get(instr.X))
	case *ssa.Go:
		fn, args := fr.prepareCall(&instr.Call)
		r.spawn(fr, fn, args)
	case *ssa.Select:
		fr.env[instr] = r.selectStmt(fr, instr)
	case *ssa.Store:
		if g, ok := instr.Addr.(*ssa.Global); ok {
			if r.gwritten == nil {
				r.gwritten = map[*ssa.Global]bool{}
			}
			r.gwritten[g] = true
		}
		if se, ok := fr.get(instr.Addr).(symElem); ok {
			r.storeSymElem(se, instr.Val.Type(), fr.get(instr.Val))
			break
		}
		if r.eng.race {
			r.raceCell(fr.get(instr.Addr).(Ptr), true, fr, instr)
		}
		store(fr.get(instr.Addr).(Ptr), fr.get(instr.Val))
	case *ssa.If:
		c := fr.get(instr.Cond).(BoolV)
		var b bool
		if c.S == nil {
			b = c.C
		} else {
			b = r.branch(c.S)
		}
		if b {
			return fr.jump(fr.block.Succs[0])
		}
		return fr.jump(fr.block.Succs[1])
	case *ssa.Jump:
		return fr.jump(fr.block.Succs[0])
	case *ssa.Defer:
		fn, args := fr.prepareCall(&instr.Call)
		fr.defers = append(fr.defers, deferred{fn, args})
	case *ssa.MakeClosure:
		var env []Value
		for _, b := range instr.Bindings {
			env = append(env, fr.get(b))
		}
		fr.env[instr] = &Closure{Fn: instr.Fn.(*ssa.Function), Env: env}
	case *ssa.Phi:
		for i, pred := range instr.Block().Preds {
			if fr.prev == pred {
				fr.env[instr] = fr.get(instr.Edges[i])
				break
			}
		}
	case *ssa.Alloc:
		p := new(Value)
		*p = zero(instr.Type().(*types.Pointer).Elem())
		fr.env[instr] = Ptr(p)
	case *ssa.MakeSlice:
		n := r.concreteInt(fr.get(instr.Len), "make len")
		c := r.concreteInt(fr.get(instr.Cap), "make cap")
		data := make([]Value, n, c)
		et := instr.Type().Underlying().(*types.Slice).Elem()
		for i := range data {
			data[i] = zero(et)
		}
		fr.env[instr] = SliceV{Data: data}
	case *ssa.MakeMap:
		fr.env[instr] = &MapV{}
	case *ssa.MapUpdate:
		m := fr.get(instr.Map).(*MapV)
		r.raceAccess(m, true, fr, instr)
		r.mapUpdate(m, fr.get(instr.Key), fr.get(instr.Value))
	case *ssa.Lookup:
		if m, ok := fr.get(instr.X).(*MapV); ok && m != nil {
			r.raceAccess(m, false, fr, instr)
		}
		fr.env[instr] = r.lookup(instr, fr.get(instr.X), fr.get(instr.Index))
	case *ssa.Range:
		if m, ok := fr.get(instr.X).(*MapV); ok && m != nil {
			r.raceAccess(m, false, fr, instr)
		}
		fr.env[instr] = r.rangeIter(fr.get(instr.X))
	case *ssa.Next:
		switch it := fr.get(instr.Iter).(type) {
		case *iter:
			fr.env[instr] = it.next()
		case *strIter:
			fr.env[instr] = it.next(r)
		}
	case *ssa.FieldAddr:
		p := fr.get(instr.X).(Ptr)
		if p == nil {
			panic(goPanic{strLit("nil pointer dereference (field " + instr.X.Type().String() + ")")})
		}
		s := (*p).(Struct)
		fr.env[instr] = Ptr(&s[instr.Field])
	case *ssa.Field:
		fr.env[instr] = copyVal(fr.get(instr.X).(Struct)[instr.Field])
	case *ssa.IndexAddr:
		x := fr.get(instr.X)
		if iv, ok := fr.get(instr.Index).(IntV); ok && iv.S != nil {
			if px, ok := x.(Ptr); ok && px != nil {
				if a, ok := (*px).(Array); ok {
					w, _ := intWidth(instr.Index.Type())
					fr.env[instr] = symElem{arr: a, idx: iv.S, w: w}
					return kNext
				}
			}
		}
		idx := r.concreteInt(fr.get(instr.Index), "index")
		switch x := x.(type) {
		case Ptr:
			if x == nil {
				panic(goPanic{strLit("nil pointer dereference (array)")})
			}
			a := (*x).(Array)
			if idx < 0 || idx >= len(a) {
				panic(goPanic{strLit("index out of range")})
			}
			fr.env[instr] = Ptr(&a[idx])
		case SliceV:
			if idx < 0 || idx >= len(x.Data) {
				panic(goPanic{strLit(fmt.Sprintf("index out of range [%d] with length %d", idx, len(x.Data)))})
			}
			fr.env[instr] = Ptr(&x.Data[idx])
		default:
			panic(fmt.Sprintf("IndexAddr on %T", x))
		}
	case *ssa.Index:
		x := fr.get(instr.X)
		idx := r.concreteInt(fr.get(instr.Index), "index")
		switch x := x.(type) {
		case Array:
			fr.env[instr] = copyVal(x[idx])
		case StrV:
			b := x.byteAt(idx)
			if b == nil {
				panic(goPanic{strLit("string index out of range")})
			}
			if b.Op == "bvlit" {
				fr.env[instr] = IntV{C: b.Val}
			} else {
				fr.env[instr] = IntV{S: b}
			}
		default:
			panic(fmt.Sprintf("Index on %T", x))
		}
	case *ssa.TypeAssert:
		fr.env[instr] = r.typeAssert(instr, fr.get(instr.X).(Iface))
	default:
		panic(unsupported("instruction %T: %v", instr, instr))
	}
	return kNext
}

func store(p Ptr, v Value) {
	if p == nil {
		panic(goPanic{strLit("nil pointer dereference (store)")})
	}
	if s, ok := v.(Struct); ok {
		if cur, ok := (*p).(Struct); ok && len(cur) == len(s) {
			for i := range s {
				store(&cur[i], s[i])
			}
			return
		}
	}
	*p = copyVal(v)
}

func (fr *frame) prepareCall(call *ssa.CallCommon) (Value, []Value) {
	v := fr.get(call.Value)
	var args []Value
	var fn Value
	if call.Method == nil {
		fn = v
	} else {
		recv := v.(Iface)
		if recv.T == nil {
			panic(goPanic{strLit("method value: interface conversion: interface is nil, calling " + call.Method.Name())})
		}
		if hv, ok := recv.V.(hostObj); ok {
			fn = hv.method(call.Method.Name())
		} else {
			m := fr.run.eng.prog.LookupMethod(recv.T, call.Method.Pkg(), call.Method.Name())
			if m == nil {
				panic(fmt.Sprintf("method %s not found on %v", call.Method.Name(), recv.T))
			}
			fn = &Closure{Fn: m}
		}
		args = append(args, recv.V)
	}
	for _, a := range call.Args {
		args = append(args, fr.get(a))
	}
	return fn, args
}

// hostObj is an engine-native object that can sit inside an interface value.
type hostObj interface {
	method(name string) Value
}

func (r *Run) concreteInt(v Value, what string) int {
	if v == nil {
		return 0
	}
	iv := v.(IntV)
	if iv.S != nil {
		panic(unsupported("symbolic %s", what))
	}
	return int(int64(iv.C))
}

func (r *Run) unop(instr *ssa.UnOp, x Value) Value {
	switch instr.Op {
	case token.MUL:
		if se, ok := x.(symElem); ok {
			return r.loadSymElem(se, instr.Type())
		}
		p := x.(Ptr)
		if p == nil {
			panic(goPanic{strLit("nil pointer dereference (load " + instr.X.Type().String() + ")")})
		}
		return copyVal(*p)
	case token.ARROW:
		v, ok := r.chanRecv(x.(*ChanV), instr.X.Type().Underlying().(*types.Chan).Elem())
		if instr.CommaOk {
			return Tuple{v, BoolV{C: ok}}
		}
		return v
	case token.NOT:
		b := x.(BoolV)
		if b.S != nil {
			return BoolV{S: mkNot(b.S)}
		}
		return BoolV{C: !b.C}
	case token.SUB:
		w, signed := intWidth(instr.X.Type())
		v := x.(IntV)
		if v.S != nil {
			return IntV{S: mk("bvneg", bv(w), v.S)}
		}
		return IntV{C: truncInt(-v.C, w, signed)}
	case token.XOR:
		w, signed := intWidth(instr.X.Type())
		v := x.(IntV)
		if v.S != nil {
			return IntV{S: mk("bvnot", bv(w), v.S)}
		}
		return IntV{C: truncInt(^v.C, w, signed)}
	}
	panic(unsupported("unop %v", instr.Op))
}

func isNilValue(v Value) bool {
	switch v := v.(type) {
	case nil:
		return true
	case Ptr:
		return v == nil
	case Iface:
		return v.T == nil
	case SliceV:
		return v.Nil
	case *Closure:
		return v == nil
	case *MapV:
		return v == nil
	case *ChanV:
		return v == nil
	}
	return false
}

// equal returns a BoolV (possibly symbolic) for x == y.
func (r *Run) equal(t types.Type, x, y Value) BoolV {
	switch x := x.(type) {
	case IntV:
		y := y.(IntV)
		if x.S == nil && y.S == nil {
			return BoolV{C: x.C == y.C}
		}
		if isIntSort(x) || isIntSort(y) {
			return intModeOp(token.EQL, x, y).(BoolV)
		}
		w, _ := intWidth(t)
		return BoolV{S: mkEq(x.term(w), y.term(w))}
	case BoolV:
		y := y.(BoolV)
		if x.S == nil && y.S == nil {
			return BoolV{C: x.C == y.C}
		}
		return BoolV{S: mkEq(x.term(), y.term())}
	case StrV:
		return r.strEqual(x, y.(StrV))
	case Ptr:
		if y == nil {
			return BoolV{C: x == nil}
		}
		return BoolV{C: x == y.(Ptr)}
	case Iface:
		yi, ok := y.(Iface)
		if !ok {
			return BoolV{C: x.T == nil && isNilValue(y)}
		}
		if x.T == nil || yi.T == nil {
			return BoolV{C: x.T == nil && yi.T == nil}
		}
		if !types.Identical(x.T, yi.T) {
			return BoolV{C: false}
		}
		return r.equal(x.T, x.V, yi.V)
	case Struct:
		y := y.(Struct)
		st := t.Underlying().(*types.Struct)
		res := BoolV{C: true}
		for i := range x {
			e := r.equal(st.Field(i).Type(), x[i], y[i])
			res = boolAnd(res, e)
		}
		return res
	case nil:
		return BoolV{C: isNilValue(y)}
	case SliceV:
		return BoolV{C: x.Nil && isNilValue(y)}
	case *Closure:
		return BoolV{C: x == nil && isNilValue(y)}
	case *MapV:
		return BoolV{C: x == nil && isNilValue(y)}
	case hostObj:
		return BoolV{C: x == y}
	case *ChanV:
		if y == nil {
			return BoolV{C: x == nil}
		}
		return BoolV{C: x == y.(*ChanV)}
	}
	panic(unsupported("equality on %T", x))
}

func boolAnd(a, b BoolV) BoolV {
	if a.S == nil && b.S == nil {
		return BoolV{C: a.C && b.C}
	}
	t := mkAnd(a.term(), b.term())
	if t.Op == "true" || t.Op == "false" {
		return BoolV{C: t.Op == "true"}
	}
	return BoolV{S: t}
}

func (r *Run) strEqual(x, y StrV) BoolV {
	if x.isConcrete() && y.isConcrete() {
		return BoolV{C: x.concrete() == y.concrete()}
	}
	if !x.hasAtom() && !y.hasAtom() {
		bx, by := x.bytesTerms(), y.bytesTerms()
		if len(bx) != len(by) {
			return BoolV{C: false}
		}
		res := BoolV{C: true}
		for i := range bx {
			if bx[i].Op == "bvlit" && by[i].Op == "bvlit" {
				if bx[i].Val != by[i].Val {
					return BoolV{C: false}
				}
				continue
			}
			res = boolAnd(res, BoolV{S: mkEq(bx[i], by[i])})
		}
		return res
	}
	tx, ty := x.term(), y.term()
	if tx.String() == ty.String() {
		return BoolV{C: true}
	}
	// both sides made of literals and newline-free atoms: equal iff they have the same number of lines and are equal
	// line by line (turns the word equations of "is this output a permutation of these blocks" into atom equalities
	// the solver decides at once)
	if lx, ok := r.linesOf(x); ok {
		if ly, ok := r.linesOf(y); ok && (len(lx) > 1 || len(ly) > 1) {
			if len(lx) != len(ly) {
				return BoolV{C: false}
			}
			res := BoolV{C: true}
			for i := range lx {
				e := r.strEqual(lx[i], ly[i])
				if e.S == nil && !e.C {
					return BoolV{C: false}
				}
				res = boolAnd(res, e)
			}
			return res
		}
	}
	return BoolV{S: mkEq(tx, ty)}
}

// linesOf splits s at its literal newlines; ok only if every atom of s is known to be newline-free and s has no
// symbolic byte.
func (r *Run) linesOf(s StrV) ([]StrV, bool) {
	lines := []StrV{{}}
	for _, g := range s.Segs {
		switch {
		case g.Byte != nil:
			return nil, false
		case g.Atom != nil:
			if !r.nlFree[g.Atom.Name] {
				return nil, false
			}
			lines[len(lines)-1] = concatStr(lines[len(lines)-1], StrV{Segs: []Seg{g}})
		default:
			parts := strings.Split(g.Lit, "\n")
			for i, p := range parts {
				if i > 0 {
					lines = append(lines, StrV{})
				}
				if p != "" {
					lines[len(lines)-1] = concatStr(lines[len(lines)-1], strLit(p))
				}
			}
		}
	}
	return lines, true
}

func (r *Run) strLen(s StrV) IntV {
	n := 0
	var sym *Term
	for _, g := range s.Segs {
		switch {
		case g.Atom != nil:
			l := mk("str.len", sortInt, g.Atom)
			if sym == nil {
				sym = l
			} else {
				sym = mk("+", sortInt, sym, l)
			}
		case g.Byte != nil:
			n++
		default:
			n += len(g.Lit)
		}
	}
	if sym == nil {
		return IntV{C: uint64(n)}
	}
	if n != 0 {
		sym = mk("+", sortInt, sym, mkIntLit(int64(n)))
	}
	return IntV{S: sym}
}

func mkIntLit(v int64) *Term {
	if v < 0 {
		return &Term{Op: "intlit", Sort: sortInt, Str: fmt.Sprintf("(- %d)", -v)}
	}
	return &Term{Op: "intlit", Sort: sortInt, Str: fmt.Sprintf("%d", v)}
}

func isIntSort(v IntV) bool { return v.S != nil && v.S.Sort.Kind == 'I' }

func (v IntV) iterm() *Term {
	if v.S != nil {
		if v.S.Sort.Kind != 'I' {
			panic(unsupported("mixing bit-vector and string-length integers"))
		}
		return v.S
	}
	return mkIntLit(int64(v.C))
}

// intModeOp handles arithmetic/comparison when an operand is a (mathematical) string length.
func intModeOp(op token.Token, x, y IntV) Value {
	a, b := x.iterm(), y.iterm()
	switch op {
	case token.ADD:
		return IntV{S: mk("+", sortInt, a, b)}
	case token.SUB:
		return IntV{S: mk("-", sortInt, a, b)}
	case token.EQL:
		return BoolV{S: mkEq(a, b)}
	case token.NEQ:
		return BoolV{S: mkNot(mkEq(a, b))}
	case token.LSS:
		return BoolV{S: mk("<", sortBool, a, b)}
	case token.LEQ:
		return BoolV{S: mk("<=", sortBool, a, b)}
	case token.GTR:
		return BoolV{S: mk(">", sortBool, a, b)}
	case token.GEQ:
		return BoolV{S: mk(">=", sortBool, a, b)}
	}
	panic(unsupported("op %v on string-length integer", op))
}

func (r *Run) binop(op token.Token, t types.Type, x, y Value) Value {
	return r.binopT(op, t, t, x, y)
}

func (r *Run) binopT(op token.Token, t, yt types.Type, x, y Value) Value {
	switch op {
	case token.EQL:
		return r.equal(t, x, y)
	case token.NEQ:
		e := r.equal(t, x, y)
		if e.S != nil {
			return BoolV{S: mkNot(e.S)}
		}
		return BoolV{C: !e.C}
	}
	switch x := x.(type) {
	case StrV:
		y := y.(StrV)
		switch op {
		case token.ADD:
			return concatStr(x, y)
		case token.LSS, token.LEQ, token.GTR, token.GEQ:
			if x.isConcrete() && y.isConcrete() {
				a, b := x.concrete(), y.concrete()
				switch op {
				case token.LSS:
					return BoolV{C: a < b}
				case token.LEQ:
					return BoolV{C: a <= b}
				case token.GTR:
					return BoolV{C: a > b}
				default:
					return BoolV{C: a >= b}
				}
			}
			// symbolic operands: a < b as a term; the other three follow from it
			lt := func(a, b StrV) *Term {
				if a.hasAtom() || b.hasAtom() {
					return mk("str.<", sortBool, a.term(), b.term())
				}
				// byte strings of concrete length: lexicographic order on the bytes
				ab, bb := a.bytesTerms(), b.bytesTerms()
				var rec func(i int) *Term
				rec = func(i int) *Term {
					if i == len(ab) {
						return mkBool(i < len(bb))
					}
					if i == len(bb) {
						return mkBool(false)
					}
					return mkOr(mk("bvult", sortBool, ab[i], bb[i]), mkAnd(mkEq(ab[i], bb[i]), rec(i+1)))
				}
				return rec(0)
			}
			var t *Term
			switch op {
			case token.LSS:
				t = lt(x, y)
			case token.GTR:
				t = lt(y, x)
			case token.LEQ:
				t = mkNot(lt(y, x))
			default:
				t = mkNot(lt(x, y))
			}
			switch t.Op {
			case "true":
				return BoolV{C: true}
			case "false":
				return BoolV{C: false}
			}
			return BoolV{S: t}
		}
		panic(unsupported("string op %v on symbolic", op))
	case IntV:
		y := y.(IntV)
		if isIntSort(x) || isIntSort(y) {
			return intModeOp(op, x, y)
		}
		w, signed := intWidth(t)
		if op == token.SHL || op == token.SHR {
			if y.S != nil {
				// symbolic shift count: SMT shifts give 0 (or sign fill) for counts >= width, as Go does
				yw, _ := intWidth(yt)
				cnt := y.S
				switch {
				case yw < w:
					cnt = mk(fmt.Sprintf("(_ zero_extend %d)", w-yw), bv(w), cnt)
				case yw > w:
					// a count that does not fit the operand width shifts everything out: saturate
					hi := mk(fmt.Sprintf("(_ extract %d %d)", yw-1, w), bv(yw-w), cnt)
					lo := mk(fmt.Sprintf("(_ extract %d 0)", w-1), bv(w), cnt)
					cnt = mk("ite", bv(w), mkEq(hi, mkBV(0, yw-w)), lo, mkBV(uint64(w), w))
				}
				o := "bvshl"
				if op == token.SHR {
					o = "bvlshr"
					if signed {
						o = "bvashr"
					}
				}
				return IntV{S: mk(o, bv(w), x.term(w), cnt)}
			}
			if x.S == nil {
				var c uint64
				if op == token.SHL {
					c = x.C << y.C
				} else if signed {
					c = uint64(int64(x.C) >> y.C)
				} else {
					c = truncInt(x.C, w, false) >> y.C
				}
				return IntV{C: truncInt(c, w, signed)}
			}
			o := "bvshl"
			if op == token.SHR {
				o = "bvlshr"
				if signed {
					o = "bvashr"
				}
			}
			return IntV{S: mk(o, bv(w), x.S, mkBV(y.C, w))}
		}
		if x.S == nil && y.S == nil {
			return concreteIntOp(op, x.C, y.C, w, signed)
		}
		a, b := x.term(w), y.term(w)
		cmp := func(u, s string) Value {
			if signed {
				return BoolV{S: mk(s, sortBool, a, b)}
			}
			return BoolV{S: mk(u, sortBool, a, b)}
		}
		switch op {
		case token.ADD:
			return IntV{S: mk("bvadd", bv(w), a, b)}
		case token.SUB:
			return IntV{S: mk("bvsub", bv(w), a, b)}
		case token.MUL:
			return IntV{S: mk("bvmul", bv(w), a, b)}
		case token.QUO:
			r.checkDivZero(y, w)
			if signed {
				return IntV{S: mk("bvsdiv", bv(w), a, b)}
			}
			return IntV{S: mk("bvudiv", bv(w), a, b)}
		case token.REM:
			r.checkDivZero(y, w)
			if signed {
				return IntV{S: mk("bvsrem", bv(w), a, b)}
			}
			return IntV{S: mk("bvurem", bv(w), a, b)}
		case token.AND:
			return IntV{S: mk("bvand", bv(w), a, b)}
		case token.OR:
			return IntV{S: mk("bvor", bv(w), a, b)}
		case token.XOR:
			return IntV{S: mk("bvxor", bv(w), a, b)}
		case token.AND_NOT:
			return IntV{S: mk("bvand", bv(w), a, mk("bvnot", bv(w), b))}
		case token.LSS:
			return cmp("bvult", "bvslt")
		case token.LEQ:
			return cmp("bvule", "bvsle")
		case token.GTR:
			return cmp("bvugt", "bvsgt")
		case token.GEQ:
			return cmp("bvuge", "bvsge")
		}
	case BoolV:
		y := y.(BoolV)
		switch op {
		case token.AND, token.LAND:
			return boolAnd(x, y)
		}
	}
	panic(unsupported("binop %v on %T", op, x))
}

func (r *Run) checkDivZero(y IntV, w int) {
	if y.S == nil {
		if y.C == 0 {
			panic(goPanic{strLit("integer divide by zero")})
		}
		return
	}
	if r.branch(mkEq(y.S, mkBV(0, w))) {
		panic(goPanic{strLit("integer divide by zero")})
	}
}

func concreteIntOp(op token.Token, a, b uint64, w int, signed bool) Value {
	sa, sb := int64(a), int64(b)
	tr := func(c uint64) Value { return IntV{C: truncInt(c, w, signed)} }
	switch op {
	case token.ADD:
		return tr(a + b)
	case token.SUB:
		return tr(a - b)
	case token.MUL:
		return tr(a * b)
	case token.QUO:
		if b == 0 {
			panic(goPanic{strLit("integer divide by zero")})
		}
		if signed {
			return tr(uint64(sa / sb))
		}
		return tr(a / b)
	case token.REM:
		if b == 0 {
			panic(goPanic{strLit("integer divide by zero")})
		}
		if signed {
			return tr(uint64(sa % sb))
		}
		return tr(a % b)
	case token.AND:
		return tr(a & b)
	case token.OR:
		return tr(a | b)
	case token.XOR:
		return tr(a ^ b)
	case token.AND_NOT:
		return tr(a &^ b)
	case token.LSS:
		if signed {
			return BoolV{C: sa < sb}
		}
		return BoolV{C: a < b}
	case token.LEQ:
		if signed {
			return BoolV{C: sa <= sb}
		}
		return BoolV{C: a <= b}
	case token.GTR:
		if signed {
			return BoolV{C: sa > sb}
		}
		return BoolV{C: a > b}
	case token.GEQ:
		if signed {
			return BoolV{C: sa >= sb}
		}
		return BoolV{C: a >= b}
	}
	panic(unsupported("int op %v", op))
}

func (r *Run) conv(dst, src types.Type, x Value) Value {
	ud, us := dst.Underlying(), src.Underlying()
	switch x := x.(type) {
	case IntV:
		if db, ok := ud.(*types.Basic); ok && db.Info()&types.IsInteger != 0 {
			dw, dsigned := intWidth(dst)
			sw, ssigned := intWidth(src)
			if x.S == nil {
				return IntV{C: truncInt(x.C, dw, dsigned)}
			}
			switch {
			case dw == sw:
				return x
			case dw < sw:
				return IntV{S: mk(fmt.Sprintf("(_ extract %d 0)", dw-1), bv(dw), x.S)}
			case ssigned:
				return IntV{S: mk(fmt.Sprintf("(_ sign_extend %d)", dw-sw), bv(dw), x.S)}
			default:
				return IntV{S: mk(fmt.Sprintf("(_ zero_extend %d)", dw-sw), bv(dw), x.S)}
			}
		}
		if db, ok := ud.(*types.Basic); ok && db.Info()&types.IsString != 0 {
			sw, _ := intWidth(src)
			return r.encodeRune(x, sw)
		}
	case StrV:
		if _, ok := ud.(*types.Basic); ok {
			return x
		}
		if sl, ok := ud.(*types.Slice); ok {
			if b, ok := sl.Elem().Underlying().(*types.Basic); ok && b.Kind() == types.Int32 {
				// []rune(s): UTF-8 decoding of the (possibly symbolic) bytes
				bs := x.bytesTerms()
				var data []Value
				for i := 0; i < len(bs); {
					t, n := r.decodeAt(bs, i)
					data = append(data, runeVal(t))
					i += n
				}
				return SliceV{Data: data}
			}
			if b, ok := sl.Elem().Underlying().(*types.Basic); ok && b.Kind() == types.Uint8 {
				if x.hasAtom() {
					return BytesOf{S: x}
				}
				bs := x.bytesTerms()
				data := make([]Value, len(bs))
				for i, b := range bs {
					if b.Op == "bvlit" {
						data[i] = IntV{C: b.Val}
					} else {
						data[i] = IntV{S: b}
					}
				}
				return SliceV{Data: data}
			}
		}
	case BytesOf:
		return x.S
	case SliceV:
		if b, ok := ud.(*types.Basic); ok && b.Info()&types.IsString != 0 {
			if sl, isSl := us.(*types.Slice); isSl {
				if eb, ok := sl.Elem().Underlying().(*types.Basic); ok && eb.Kind() == types.Int32 {
					// string([]rune)
					out := StrV{}
					for _, e := range x.Data {
						out = concatStr(out, r.encodeRune(e.(IntV), 32))
					}
					return out
				}
			}
			var bs []*Term
			for _, e := range x.Data {
				bs = append(bs, e.(IntV).term(8))
			}
			return strFromBytes(bs)
		}
	case Ptr:
		return x // unsafe.Pointer conversions: pass through
	}
	_ = us
	panic(unsupported("conversion %v <- %v (%T)", dst, src, x))
}

// encodeRune: string(rune), UTF-8 encoding; a symbolic rune is split by encoded length (surrogates and values
// above U+10FFFF encode U+FFFD, as in Go)
func (r *Run) encodeRune(x IntV, sw int) StrV {
	if x.S == nil {
		v := int64(x.C)
		if sw < 64 {
			v = int64(int32(x.C))
		}
		if v < 0 || v > 0x10FFFF || (v >= 0xD800 && v <= 0xDFFF) {
			v = 0xFFFD
		}
		return strLit(string(rune(v)))
	}
	t := x.S
	if sw != 32 {
		if sw < 32 {
			t = mk(fmt.Sprintf("(_ zero_extend %d)", 32-sw), bv(32), t)
		} else {
			t = mk("(_ extract 31 0)", bv(32), t)
		}
	}
	lt := func(v uint64) bool { return r.branch(mk("bvult", sortBool, t, mkBV(v, 32))) }
	byteOf := func(shift uint64, mask, or uint64) Seg {
		b := mk("bvor", bv(32), mk("bvand", bv(32), mk("bvlshr", bv(32), t, mkBV(shift, 32)), mkBV(mask, 32)), mkBV(or, 32))
		return Seg{Byte: mk("(_ extract 7 0)", bv(8), b)}
	}
	switch {
	case lt(0x80):
		return StrV{Segs: []Seg{{Byte: mk("(_ extract 7 0)", bv(8), t)}}}
	case lt(0x800):
		return StrV{Segs: []Seg{byteOf(6, 0x1F, 0xC0), byteOf(0, 0x3F, 0x80)}}
	case lt(0x10000):
		if !lt(0xD800) && lt(0xE000) {
			return strLit("\uFFFD")
		}
		return StrV{Segs: []Seg{byteOf(12, 0x0F, 0xE0), byteOf(6, 0x3F, 0x80), byteOf(0, 0x3F, 0x80)}}
	case lt(0x110000):
		return StrV{Segs: []Seg{byteOf(18, 0x07, 0xF0), byteOf(12, 0x3F, 0x80), byteOf(6, 0x3F, 0x80), byteOf(0, 0x3F, 0x80)}}
	}
	return strLit("\uFFFD")
}

func (r *Run) slice(instr *ssa.Slice, x, lo, hi, max Value) Value {
	l := 0
	if lo != nil {
		l = r.concreteInt(lo, "slice low")
	}
	switch x := x.(type) {
	case StrV:
		if x.hasAtom() {
			return sliceHybrid(x, l, hi != nil, r.concreteInt(hi, "slice high"))
		}
		bs := x.bytesTerms()
		h := len(bs)
		if hi != nil {
			h = r.concreteInt(hi, "slice high")
		}
		if l < 0 || h > len(bs) || l > h {
			panic(goPanic{strLit("slice bounds out of range")})
		}
		return strFromBytes(bs[l:h])
	case SliceV:
		h := len(x.Data)
		if hi != nil {
			h = r.concreteInt(hi, "slice high")
		}
		m := cap(x.Data)
		if max != nil {
			m = r.concreteInt(max, "slice max")
		}
		if l < 0 || h > cap(x.Data) || l > h || m > cap(x.Data) || h > m {
			panic(goPanic{strLit("slice bounds out of range")})
		}
		if x.Nil && h == 0 {
			return x
		}
		return SliceV{Data: x.Data[l:h:m]}
	case Ptr:
		a := (*x).(Array)
		h := len(a)
		if hi != nil {
			h = r.concreteInt(hi, "slice high")
		}
		if l < 0 || h > len(a) || l > h {
			panic(goPanic{strLit("slice bounds out of range")})
		}
		return SliceV{Data: []Value(a)[l:h]}
	case BytesOf:
		if lo == nil && hi == nil {
			return x
		}
	}
	panic(unsupported("slice of %T", x))
}

func (r *Run) typeAssert(instr *ssa.TypeAssert, x Iface) Value {
	ok := false
	var res Value
	if it, isIface := instr.AssertedType.Underlying().(*types.Interface); isIface {
		if x.T != nil {
			if _, host := x.V.(hostObj); host {
				ok = true
			} else {
				ok = types.Implements(x.T, it)
			}
		}
		res = x
		if !ok {
			res = Iface{}
		}
	} else {
		ok = x.T != nil && types.Identical(x.T, instr.AssertedType)
		if ok {
			res = x.V
		} else {
			res = zero(instr.AssertedType)
		}
	}
	if instr.CommaOk {
		return Tuple{res, BoolV{C: ok}}
	}
	if !ok {
		panic(goPanic{strLit(fmt.Sprintf("interface conversion: %v is not %v", x.T, instr.AssertedType))})
	}
	return res
}

// maps: association lists with (possibly symbolic) key equality decided by branching.
func (r *Run) keyEq(a, b Value) bool {
	var t types.Type = types.Typ[types.String]
	if _, ok := a.(IntV); ok {
		t = types.Typ[types.Int]
	}
	e := r.equal(t, a, b)
	if e.S == nil {
		return e.C
	}
	return r.branch(e.S)
}

func (r *Run) mapUpdate(m *MapV, k, v Value) {
	if m == nil {
		panic(goPanic{strLit("assignment to entry in nil map")})
	}
	for i := range m.Keys {
		if r.keyEq(m.Keys[i], k) {
			m.Vals[i] = v
			return
		}
	}
	m.Keys = append(m.Keys, k)
	m.Vals = append(m.Vals, v)
}

func (r *Run) lookup(instr *ssa.Lookup, x, k Value) Value {
	m := x.(*MapV)
	var v Value
	found := false
	if m != nil {
		for i := range m.Keys {
			if r.keyEq(m.Keys[i], k) {
				v, found = copyVal(m.Vals[i]), true
				break
			}
		}
	}
	if !found {
		v = zero(instr.X.Type().Underlying().(*types.Map).Elem())
	}
	if instr.CommaOk {
		return Tuple{v, BoolV{C: found}}
	}
	return v
}

type iter struct {
	keys, vals []Value
	i          int
}

func (it *iter) next() Value {
	if it.i >= len(it.keys) {
		return Tuple{BoolV{C: false}, nil, nil}
	}
	k, v := it.keys[it.i], it.vals[it.i]
	it.i++
	return Tuple{BoolV{C: true}, k, v}
}

func (r *Run) rangeIter(x Value) Value {
	switch x := x.(type) {
	case *MapV:
		if x == nil {
			return &iter{}
		}
		return &iter{keys: append([]Value{}, x.Keys...), vals: append([]Value{}, x.Vals...)}
	}
	if sv, ok := x.(StrV); ok {
		return &strIter{bs: sv.bytesTerms()}
	}
	panic(unsupported("range over %T", x))
}

func (r *Run) callBuiltin(fr *frame, name string, args []Value) Value {
	switch name {
	case "len":
		switch x := args[0].(type) {
		case StrV:
			return r.strLen(x)
		case SliceV:
			return IntV{C: uint64(len(x.Data))}
		case Array:
			return IntV{C: uint64(len(x))}
		case *MapV:
			if x == nil {
				return IntV{}
			}
			return IntV{C: uint64(len(x.Keys))}
		case BytesOf:
			return r.strLen(x.S)
		case Ptr:
			return IntV{C: uint64(len((*x).(Array)))}
		case *ChanV:
			if x == nil {
				return IntV{}
			}
			return IntV{C: uint64(len(x.buf))} // the values buffered at this instant of the explored schedule
		}
	case "cap":
		switch x := args[0].(type) {
		case SliceV:
			return IntV{C: uint64(cap(x.Data))}
		case *ChanV:
			if x == nil {
				return IntV{}
			}
			return IntV{C: uint64(x.cap)}
		}
	case "append":
		s := args[0].(SliceV)
		switch e := args[1].(type) {
		case SliceV:
			if len(e.Data) == 0 {
				return s
			}
			if r.raceOn() && !fr.user {
				for i := range e.Data {
					r.raceAccess(&e.Data[i], false, fr, nil)
				}
				if n := len(s.Data); n+len(e.Data) <= cap(s.Data) {
					// in place: the spare elements of the shared backing array are written
					spare := s.Data[n : n+len(e.Data)]
					for i := range spare {
						r.raceAccess(&spare[i], true, fr, nil)
					}
				}
			}
			// Go semantics of growth: when the capacity does not suffice, the elements move to a new array, and struct
			// and array elements are values -- the copies must not share their fields with the old array (a pointer
			// taken into the old array goes stale)
			add := make([]Value, len(e.Data))
			for i := range e.Data {
				add[i] = copyVal(e.Data[i])
			}
			if len(s.Data)+len(add) > cap(s.Data) {
				grown := make([]Value, len(s.Data), growCap(cap(s.Data), len(s.Data)+len(add)))
				for i := range s.Data {
					grown[i] = copyVal(s.Data[i])
				}
				return SliceV{Data: append(grown, add...)}
			}
			return SliceV{Data: append(s.Data, add...)}
		case StrV:
			var data []Value
			for _, b := range e.bytesTerms() {
				if b.Op == "bvlit" {
					data = append(data, IntV{C: b.Val})
				} else {
					data = append(data, IntV{S: b})
				}
			}
			return SliceV{Data: append(s.Data, data...)}
		}
	case "copy":
		dst := args[0].(SliceV)
		switch src := args[1].(type) {
		case SliceV:
			if r.raceOn() && !fr.user {
				for i := 0; i < len(dst.Data) && i < len(src.Data); i++ {
					r.raceAccess(&src.Data[i], false, fr, nil)
					r.raceAccess(&dst.Data[i], true, fr, nil)
				}
			}
			n := copy(dst.Data, src.Data)
			return IntV{C: uint64(n)}
		case StrV:
			bs := src.bytesTerms()
			n := 0
			for i := range bs {
				if i >= len(dst.Data) {
					break
				}
				if r.raceOn() && !fr.user {
					r.raceAccess(&dst.Data[i], true, fr, nil)
				}
				if bs[i].Op == "bvlit" {
					dst.Data[i] = IntV{C: bs[i].Val}
				} else {
					dst.Data[i] = IntV{S: bs[i]}
				}
				n++
			}
			return IntV{C: uint64(n)}
		}
	case "clear":
		switch x := args[0].(type) {
		case SliceV:
			for i := range x.Data {
				if r.raceOn() && !fr.user {
					r.raceAccess(&x.Data[i], true, fr, nil)
				}
				x.Data[i] = zeroLike(x.Data[i])
			}
			return nil
		case *MapV:
			if x != nil {
				r.raceAccess(x, true, fr, nil)
				x.Keys, x.Vals = nil, nil
			}
			return nil
		}
	case "min", "max":
		if sacc, ok := args[0].(StrV); ok {
			// strings: ordered by the symbolic comparison (a path split per operand)
			for _, a := range args[1:] {
				c := r.binop(token.LSS, types.Typ[types.String], sacc, a).(BoolV)
				less := c.C
				if c.S != nil {
					less = r.branch(c.S)
				}
				if (name == "min") != less {
					sacc = a.(StrV)
				}
			}
			return sacc
		}
		acc, ok := args[0].(IntV)
		if !ok {
			break
		}
		for _, a := range args[1:] {
			b := a.(IntV)
			if acc.S == nil && b.S == nil {
				less := int64(acc.C) < int64(b.C)
				if (name == "min") != less {
					acc = b
				}
				continue
			}
			c := r.binop(token.LSS, types.Typ[types.Int], acc, b).(BoolV)
			less := c.C
			if c.S != nil {
				less = r.branch(c.S)
			}
			if (name == "min") != less {
				acc = b
			}
		}
		return acc
	case "SliceData", "StringData":
		return args[0]
	case "String":
		sl := args[0].(SliceV)
		n := r.concreteInt(args[1], "unsafe.String len")
		var bs []*Term
		for _, e := range sl.Data[:n] {
			bs = append(bs, e.(IntV).term(8))
		}
		return strFromBytes(bs)
	case "recover":
		return Iface{}
	case "close":
		r.chanClose(args[0].(*ChanV))
		return nil
	case "ssa:wrapnilchk":
		if p, ok := args[0].(Ptr); ok && p == nil {
			panic(goPanic{strLit("value method called using nil pointer")})
		}
		return args[0]
	}
	panic(unsupported("builtin %s on %T", name, args[0]))
}

// zeroLike: the zero value of the same shape as v (builtin clear on a slice whose element type is not at hand)
func zeroLike(v Value) Value {
	switch v := v.(type) {
	case IntV:
		return IntV{}
	case BoolV:
		return BoolV{}
	case StrV:
		return StrV{}
	case Ptr:
		return Ptr(nil)
	case Iface:
		return Iface{}
	case Struct:
		out := make(Struct, len(v))
		for i := range v {
			out[i] = zeroLike(v[i])
		}
		return out
	case Array:
		out := make(Array, len(v))
		for i := range v {
			out[i] = zeroLike(v[i])
		}
		return out
	case SliceV:
		return SliceV{Nil: true}
	case *MapV:
		return (*MapV)(nil)
	case *Closure:
		return (*Closure)(nil)
	case *ChanV:
		return (*ChanV)(nil)
	}
	panic(unsupported("builtin clear: zero value of %T", v))
}

func describe(v Value) string {
	switch v := v.(type) {
	case StrV:
		var parts []string
		for _, g := range v.Segs {
			switch {
			case g.Atom != nil:
				parts = append(parts, "<"+g.Atom.String()+">")
			case g.Byte != nil:
				parts = append(parts, "["+g.Byte.String()+"]")
			default:
				parts = append(parts, fmt.Sprintf("%q", g.Lit))
			}
		}
		return strings.Join(parts, "+")
	}
	return fmt.Sprintf("%v", v)
}

// symElem is the address of arr[idx] for a symbolic idx into an array of concrete integers (lookup tables).
type symElem struct {
	arr Array
	idx *Term
	w   int
}

// storeSymElem: arr[idx] = v for a symbolic idx into a small integer array: every element becomes
// ite(idx == i, v, old). Out-of-range indexes panic as in Go.
func (r *Run) storeSymElem(se symElem, t types.Type, v Value) {
	ew, _ := intWidth(t)
	nv, ok := v.(IntV)
	if !ok || len(se.arr) > 64 {
		panic(unsupported("store through a symbolic index (element type %v, %d elements)", t, len(se.arr)))
	}
	if r.branch(mk("bvuge", sortBool, se.idx, mkBV(uint64(len(se.arr)), se.w))) {
		panic(goPanic{strLit("index out of range (symbolic)")})
	}
	for i := range se.arr {
		old, ok := se.arr[i].(IntV)
		if !ok {
			panic(unsupported("store through a symbolic index into a non-integer array"))
		}
		se.arr[i] = IntV{S: mk("ite", bv(ew), mkEq(se.idx, mkBV(uint64(i), se.w)), nv.term(ew), old.term(ew))}
	}
}

func (r *Run) loadSymElem(se symElem, t types.Type) Value {
	ew, _ := intWidth(t)
	symbolicElems := false
	for _, e := range se.arr {
		if iv, ok := e.(IntV); ok && iv.S != nil {
			symbolicElems = true
		}
	}
	if symbolicElems {
		// elements themselves symbolic (after a symbolic-index store): plain ite chain
		if len(se.arr) > 64 {
			panic(unsupported("symbolic index into a large symbolic array"))
		}
		if r.branch(mk("bvuge", sortBool, se.idx, mkBV(uint64(len(se.arr)), se.w))) {
			panic(goPanic{strLit("index out of range (symbolic)")})
		}
		acc := se.arr[len(se.arr)-1].(IntV).term(ew)
		for i := len(se.arr) - 2; i >= 0; i-- {
			acc = mk("ite", bv(ew), mkEq(se.idx, mkBV(uint64(i), se.w)), se.arr[i].(IntV).term(ew), acc)
		}
		return IntV{S: acc}
	}
	groups := map[uint64]*Term{}
	var order []uint64
	for i, e := range se.arr {
		iv, ok := e.(IntV)
		if !ok || iv.S != nil {
			panic(unsupported("symbolic index into non-constant array"))
		}
		c := mkEq(se.idx, mkBV(uint64(i), se.w))
		if g, ok := groups[iv.C]; ok {
			groups[iv.C] = mk("or", sortBool, g, c)
		} else {
			groups[iv.C] = c
			order = append(order, iv.C)
		}
	}
	// out-of-range index panics in Go
	n := uint64(len(se.arr))
	if se.w > 8 || n < 256 {
		if r.branch(mk("bvuge", sortBool, se.idx, mkBV(n, se.w))) {
			panic(goPanic{strLit("index out of range (symbolic)")})
		}
	}
	// largest group becomes the default branch
	cnt := map[uint64]int{}
	for _, e := range se.arr {
		cnt[e.(IntV).C]++
	}
	sort.SliceStable(order, func(i, j int) bool { return cnt[order[i]] < cnt[order[j]] })
	acc := mkBV(order[len(order)-1], ew)
	for i := len(order) - 2; i >= 0; i-- {
		acc = mk("ite", bv(ew), groups[order[i]], mkBV(order[i], ew), acc)
	}
	if len(order) == 1 {
		return IntV{C: order[0]}
	}
	return IntV{S: acc}
}

type strIter struct {
	bs []*Term
	i  int
}

func (it *strIter) next(r *Run) Value {
	if it.i >= len(it.bs) {
		return Tuple{BoolV{C: false}, IntV{}, IntV{}}
	}
	i := it.i
	t, n := r.decodeAt(it.bs, i)
	it.i += n
	return Tuple{BoolV{C: true}, IntV{C: uint64(i)}, runeVal(t)}
}

// sliceHybrid slices a string containing atoms when both cut points fall into the leading
// atom-free part (enough for code that only inspects a literal prefix).
func sliceHybrid(x StrV, l int, hasHi bool, h int) Value {
	// split into leading atom-free bytes and the rest
	var lead []*Term
	i := 0
	for ; i < len(x.Segs); i++ {
		g := x.Segs[i]
		if g.Atom != nil {
			break
		}
		if g.Byte != nil {
			lead = append(lead, g.Byte)
		} else {
			for j := 0; j < len(g.Lit); j++ {
				lead = append(lead, mkBV(uint64(g.Lit[j]), 8))
			}
		}
	}
	rest := StrV{Segs: x.Segs[i:]}
	if hasHi {
		if l < 0 || l > h || h > len(lead) {
			panic(unsupported("slice bound inside opaque atom"))
		}
		return strFromBytes(lead[l:h])
	}
	if l < 0 || l > len(lead) {
		panic(unsupported("slice bound inside opaque atom"))
	}
	return concatStr(strFromBytes(lead[l:]), rest)
}

// growCap: the runtime's growth rule for small slices (doubling up to 256 elements, then about 1.25x), rounded as the
// runtime does not matter here: only "a new array whenever the old capacity does not suffice" is modelled faithfully
func growCap(oldCap, need int) int {
	c := oldCap * 2
	if oldCap >= 256 {
		c = oldCap + oldCap/4 + 192
	}
	if c < need {
		c = need
	}
	return c
}
