package main

import (
	"bytes"
	"context"
	"encoding/json"
	"fmt"
	"io/fs"
	"os"
	"os/exec"
	"path/filepath"
	"regexp"
	"sort"
	"strings"
	"time"
)

// Concrete replay for the C16 jobs (package main cannot be run natively under the harness because its library and
// OS calls are stubs there): the real gtree binary, built from /repo's working tree, is run on a scenario derived
// from the solver's model and compared with a reference program that performs, through the public library API, the
// operation the flags denote (replay/cliref): stdout, exit status (zero iff the library returned nil) and the
// resulting file system must agree. The scenario is built so that every option changes the observable behaviour.

type cliReplayer struct {
	dir, bin, ref string
	stdoutPath    string // when set, the child's stdout is this file (e.g. /dev/full)
}

func newCLIReplayer() (*cliReplayer, error) {
	dir, err := os.MkdirTemp("", "verif-clireplay-")
	if err != nil {
		return nil, err
	}
	cr := &cliReplayer{dir: dir, bin: filepath.Join(dir, "gtree"), ref: filepath.Join(dir, "cliref")}
	cmd := exec.Command("go", "build", "-o", cr.bin, "./cmd/gtree")
	cmd.Dir = repoDir
	cmd.Env = goEnv()
	if out, err := cmd.CombinedOutput(); err != nil {
		cr.close()
		return nil, fmt.Errorf("go build ./cmd/gtree: %v\n%s", err, out)
	}
	// the reference program is built in a scratch module that replaces the repository with the tree under test
	refDir := filepath.Join(dir, "cliref-src")
	os.MkdirAll(refDir, 0o755)
	src, err := os.ReadFile(filepath.Join(verifDir, "replay", "cliref", "main.go"))
	if err != nil {
		cr.close()
		return nil, err
	}
	os.WriteFile(filepath.Join(refDir, "main.go"), src, 0o644)
	os.WriteFile(filepath.Join(refDir, "go.mod"), []byte("module cliref\n\ngo 1.24\n\nrequire github.com/ddddddO/gtree v0.0.0\n\nreplace github.com/ddddddO/gtree => "+repoDir+"\n"), 0o644)
	if b, err := os.ReadFile(filepath.Join(repoDir, "go.sum")); err == nil {
		os.WriteFile(filepath.Join(refDir, "go.sum"), b, 0o644)
	}
	cmd = exec.Command("go", "build", "-o", cr.ref, ".")
	cmd.Dir = refDir
	cmd.Env = goEnv()
	if out, err := cmd.CombinedOutput(); err != nil {
		cr.close()
		return nil, fmt.Errorf("go build replay/cliref: %v\n%s", err, out)
	}
	return cr, nil
}

func (cr *cliReplayer) close() {
	if cr != nil && cr.dir != "" {
		os.RemoveAll(cr.dir)
	}
}

type cliScenario struct {
	Cmd        string   `json:"cmd"`
	Format     string   `json:"format"`
	Massive    bool     `json:"massive"`
	TimeoutNs  int64    `json:"timeout_ns"`
	File       string   `json:"file"`
	DryRun     bool     `json:"dry_run"`
	Extensions []string `json:"extensions"`
	TargetDir  string   `json:"target_dir"`
	Strict     bool     `json:"strict"`
}

var simpleWord = regexp.MustCompile(`^[A-Za-z0-9._]{1,8}$`)

func modelStr(m *ConcreteModel, k string) (string, bool) {
	h, ok := m.Strs[k]
	if !ok {
		return "", false
	}
	b, err := hexDecode(h)
	if err != nil {
		return "", false
	}
	return string(b), true
}

func hexDecode(h string) ([]byte, error) {
	var out []byte
	for i := 0; i+1 < len(h); i += 2 {
		var b byte
		if _, err := fmt.Sscanf(h[i:i+2], "%02x", &b); err != nil {
			return nil, err
		}
		out = append(out, b)
	}
	return out, nil
}

const cliDoc = "- root\n  - a.x\n  - d\n    - e.x\n  - f\n"
const cliBadDoc = "- root\n  - a.x\n  -\n"

// a good root block in front of the failing one: the library has printed the first tree when it meets the bad row
// (simple mode: deterministic), so "stdout is what the library wrote" also covers partial output before a failure
const cliBadDoc2 = "- first\n  - kept\n- root\n  - a.x\n  -\n"

func (cr *cliReplayer) run(j *Job, raw map[string]string, aid string) *NativeResult {
	m, err := concretize(j, raw)
	if err != nil {
		return &NativeResult{Err: err.Error()}
	}
	return cr.runConcrete(j, m, aid)
}

func (cr *cliReplayer) runConcrete(j *Job, m *ConcreteModel, aid string) *NativeResult {
	res := &NativeResult{Entry: j.Entry, Asserts: map[string]int{}}
	fail := func(why string) *NativeResult {
		if aid == "" {
			aid = "C16.replay"
		}
		res.Failed = append(res.Failed, aid)
		res.Notes = append(res.Notes, why)
		return res
	}
	if j.Entry == "VerifC16Main" {
		if m.Bools["b_runfails_0"] {
			// the contract of the App.Run stub ("a usage failure is a non-nil, non-ExitCoder error or an os.Exit(!= 0)
			// inside Run") against the real urfave/cli as configured by main(): every class of usage failure
			for _, args := range [][]string{{"output", "stray-argument"}, {"output", "--no-such-flag"}, {"mkdir", "x", "y"},
				{"outptu"}, {"mkdirs", "--dry-run"}, {"help", "verfy"}, {"--no-such-global-flag"}, {"output", "--format"},
				{"output", "--massive-timeout", "abc"}, {"verify", "--target-dir"}, {"template", "stray"}} {
				code, _, _ := cr.exec(cr.bin, cr.dir, "- a\n", args...)
				res.Asserts["usage"]++
				if code == 0 {
					return fail(fmt.Sprintf("gtree %s exited 0", strings.Join(args, " ")))
				}
			}
		} else {
			code, _, _ := cr.exec(cr.bin, cr.dir, "", "version")
			res.Asserts["version"]++
			if code != 0 {
				return fail("gtree version exited non-zero")
			}
			// an empty document is a valid input wherever it comes from: a pipe, or the null device (no stdin at all: cron, CI)
			for _, args := range [][]string{{"output"}, {"output", "--format", "json"}, {"mkdir", "--dry-run"}, {"verify"}} {
				for _, in := range []string{"", stdinDevNull} {
					code, out, _ := cr.exec(cr.bin, cr.dir, in, args...)
					res.Asserts["empty-input"]++
					if code != 0 || out != "" {
						return fail(fmt.Sprintf("gtree %s on an empty document (%q): exit %d, stdout %q; the library returns nil and writes nothing", strings.Join(args, " "), in, code, clip(out)))
					}
				}
			}
			// 'template' piped into 'output' renders the documented sample tree (the block of /repo/README.md that
			// follows "$ gtree template | gtree output")
			if want, ok := readmeSampleTree(); ok {
				c1, tmpl, _ := cr.exec(cr.bin, cr.dir, "", "template")
				c2, tree, _ := cr.exec(cr.bin, cr.dir, tmpl, "output")
				res.Asserts["template"]++
				if c1 != 0 || c2 != 0 {
					return fail(fmt.Sprintf("gtree template | gtree output: exit %d / %d", c1, c2))
				}
				if strings.TrimRight(tree, "\n") != want {
					return fail(fmt.Sprintf("gtree template | gtree output renders %q, README documents %q", clip(tree), clip(want)))
				}
			}
			// the commands that print without going through the library, on an output stream that takes nothing: a failed
			// write is an I/O failure of the operation, so the status is non-zero and stderr says why
			for _, args := range [][]string{{"template"}, {"template", "--description"}, {"tmpl"}} {
				cr.stdoutPath = "/dev/full"
				code, _, errOut := cr.exec(cr.bin, cr.dir, "", args...)
				cr.stdoutPath = ""
				res.Asserts["template-devfull"]++
				if code == 0 || strings.TrimSpace(errOut) == "" {
					return fail(fmt.Sprintf("gtree %s with stdout=/dev/full: exit %d, stderr %q; nothing could be written, so the operation failed", strings.Join(args, " "), code, clip(errOut)))
				}
			}
		}
		return res
	}
	if j.Entry == "VerifC16Template" {
		// the template action on the real binary: with a stdout that takes nothing when the model refuses a write
		// (/dev/full refuses every write: the coarsest member of the family), a healthy pipe otherwise
		args := []string{"template"}
		if m.Bools["b_flag_description_0"] {
			args = append(args, "--description")
		}
		refused := false
		for k, v := range m.Bools {
			if strings.HasPrefix(k, "b_stdoutfails_") && v {
				refused = true
			}
		}
		if refused {
			cr.stdoutPath = "/dev/full"
		}
		code, out, errOut := cr.exec(cr.bin, cr.dir, "", args...)
		cr.stdoutPath = ""
		res.Asserts["template"]++
		res.Notes = append(res.Notes, fmt.Sprintf("gtree %s (stdout refused: %v) -> exit %d", strings.Join(args, " "), refused, code))
		if refused && (code == 0 || strings.TrimSpace(errOut) == "") {
			return fail(fmt.Sprintf("gtree %s with a stdout that takes nothing: exit %d, stderr %q", strings.Join(args, " "), code, clip(errOut)))
		}
		if !refused && (code != 0 || !strings.HasSuffix(out, "\n") || !strings.HasPrefix(out, "- ")) {
			return fail(fmt.Sprintf("gtree %s: exit %d, stdout %q", strings.Join(args, " "), code, clip(out)))
		}
		return res
	}
	sc := cliScenario{}
	switch j.Entry {
	case "VerifC16Output":
		sc.Cmd = "output"
	case "VerifC16Mkdir":
		sc.Cmd = "mkdir"
	case "VerifC16Verify":
		sc.Cmd = "verify"
	case "VerifC16Code":
		sc.Cmd = []string{"output", "mkdir", "verify"}[m.Ints["c_action_0"]%3]
	default:
		return &NativeResult{Err: "no CLI replay for " + j.Entry}
	}
	libFails := m.Bools["b_libfails_0"]
	openFails := m.Bools["b_openfails_0"]
	args := []string{sc.Cmd}
	if f, ok := modelStr(m, "s_flag_file_0"); ok && f != "" {
		if f == "-" {
			sc.File = "-"
		} else if openFails {
			sc.File = "missing.md"
		} else {
			sc.File = "in.md"
		}
		args = append(args, "--file", sc.File)
	}
	switch sc.Cmd {
	case "output":
		if f, ok := modelStr(m, "s_flag_format_0"); ok && f != "" {
			if !simpleWord.MatchString(f) {
				f = "bogus"
			}
			sc.Format = f
			args = append(args, "--format", f)
		}
		if m.Bools["b_flag_massive_0"] {
			sc.Massive = true
			args = append(args, "--massive")
		}
		if t := int64(m.Ints["u_flag_massive_timeout_0"]); t > 0 {
			sc.TimeoutNs = int64(10 * time.Second)
			args = append(args, "--massive-timeout", "10s")
		}
	case "mkdir":
		if m.Bools["b_flag_dry_run_0"] {
			sc.DryRun = true
			args = append(args, "--dry-run")
		}
		n := int(m.Ints["c_flagn_extension_0"])
		if _, ok := m.Ints["c_flagn_extension_0"]; !ok {
			n = 2
		}
		dflt := []string{".x", "f"}
		for i := 0; i < n && i < 2; i++ {
			e, ok := modelStr(m, fmt.Sprintf("s_flagv_extension_%d", i))
			if !ok || !simpleWord.MatchString(e) {
				e = dflt[i]
			}
			sc.Extensions = append(sc.Extensions, e)
			args = append(args, "--extension", e)
		}
	case "verify":
		if m.Bools["b_flag_strict_0"] {
			sc.Strict = true
			args = append(args, "--strict")
		}
	}
	if sc.Cmd != "output" {
		if t, ok := modelStr(m, "s_flag_target_dir_0"); ok && t != "" {
			sc.TargetDir = "tgt"
			args = append(args, "--target-dir", "tgt")
		}
	}
	doc := cliDoc
	if libFails && sc.Cmd != "verify" {
		doc = cliBadDoc
		if sc.Cmd == "output" && !sc.Massive && sc.TimeoutNs == 0 {
			// (a --massive-timeout alone selects the massive mode as well: how much it prints before a failure is the
			// scheduler's choice, so partial output is compared in the simple mode only)
			doc = cliBadDoc2
		}
	}
	setup := func(dir string) error {
		if err := os.MkdirAll(dir, 0o755); err != nil {
			return err
		}
		if err := os.WriteFile(filepath.Join(dir, "in.md"), []byte(doc), 0o644); err != nil {
			return err
		}
		if sc.Cmd == "verify" {
			base := dir
			if sc.TargetDir != "" {
				base = filepath.Join(dir, sc.TargetDir)
			}
			for _, p := range []string{"root/a.x", "root/d/e.x", "root/f", "root/extra"} {
				if libFails && p == "root/d/e.x" {
					continue
				}
				if err := os.MkdirAll(filepath.Join(base, p), 0o755); err != nil {
					return err
				}
			}
		}
		return nil
	}
	work, err := os.MkdirTemp(cr.dir, "sc")
	if err != nil {
		return &NativeResult{Err: err.Error()}
	}
	defer os.RemoveAll(work)
	dA, dB := filepath.Join(work, "cli"), filepath.Join(work, "ref")
	if err := setup(dA); err != nil {
		return &NativeResult{Err: err.Error()}
	}
	if err := setup(dB); err != nil {
		return &NativeResult{Err: err.Error()}
	}
	scj, _ := json.Marshal(sc)
	// when the document comes from --file, stdin carries a DIFFERENT document: reading the wrong source shows
	stdinDoc := doc
	if sc.File != "" && sc.File != "-" {
		stdinDoc = "- from-stdin\n  - not-the-file\n"
	}
	codeA, outA, errA := cr.exec(cr.bin, dA, stdinDoc, args...)
	codeB, outB, errB := cr.exec(cr.ref, dB, stdinDoc, string(scj))
	res.Asserts["cli-vs-library"]++
	res.Notes = append(res.Notes, fmt.Sprintf("gtree %s -> exit %d; library -> exit %d", strings.Join(args, " "), codeA, codeB))
	if codeA < 0 || codeB < 0 || codeB >= 97 {
		return &NativeResult{Err: fmt.Sprintf("replay run failed: cli=%d ref=%d cli-stderr=%q ref-stderr=%q", codeA, codeB, clip(errA), clip(errB))}
	}
	if (codeA == 0) != (codeB == 0) {
		return fail(fmt.Sprintf("exit status: gtree %s exited %d, the library call returned %s", strings.Join(args, " "), codeA, map[bool]string{true: "nil", false: "an error"}[codeB == 0]))
	}
	if outA != outB {
		return fail(fmt.Sprintf("stdout differs for gtree %s: cli %q, library %q", strings.Join(args, " "), clip(outA), clip(outB)))
	}
	if a, b := snapshotDir(dA), snapshotDir(dB); a != b {
		return fail(fmt.Sprintf("file system differs for gtree %s: cli {%s}, library {%s}", strings.Join(args, " "), a, b))
	}
	// mkdir (with or without --dry-run) into a target in which the document's root exists already: same verdict, same
	// output, same file system as the library call the command stands for
	if sc.Cmd == "mkdir" && !libFails && !openFails {
		dE, dF := filepath.Join(work, "cli-exists"), filepath.Join(work, "ref-exists")
		pre := func(dir string) error {
			if err := setup(dir); err != nil {
				return err
			}
			base := dir
			if sc.TargetDir != "" {
				base = filepath.Join(dir, sc.TargetDir)
			}
			return os.MkdirAll(filepath.Join(base, "root"), 0o755)
		}
		if pre(dE) == nil && pre(dF) == nil {
			codeA, outA, _ := cr.exec(cr.bin, dE, stdinDoc, args...)
			codeB, outB, _ := cr.exec(cr.ref, dF, stdinDoc, string(scj))
			res.Asserts["cli-vs-library-root-exists"]++
			if codeA >= 0 && codeB >= 0 && codeB < 97 {
				if (codeA == 0) != (codeB == 0) {
					return fail(fmt.Sprintf("exit status when the root exists already: gtree %s exited %d, the library call returned %s", strings.Join(args, " "), codeA, map[bool]string{true: "nil", false: "an error"}[codeB == 0]))
				}
				if outA != outB {
					return fail(fmt.Sprintf("stdout differs when the root exists already for gtree %s: cli %q, library %q", strings.Join(args, " "), clip(outA), clip(outB)))
				}
				if a, b := snapshotDir(dE), snapshotDir(dF); a != b {
					return fail(fmt.Sprintf("file system differs when the root exists already for gtree %s: cli {%s}, library {%s}", strings.Join(args, " "), a, b))
				}
			}
		}
	}
	// the same flags on a well-formed document with an unwritable stdout: the exit status must still be the
	// library's verdict (the library reports the write error)
	if sc.Cmd == "output" || sc.DryRun {
		dC, dD := filepath.Join(work, "cli-full"), filepath.Join(work, "ref-full")
		keepDoc := doc
		doc = cliDoc
		e1, e2 := setup(dC), setup(dD)
		doc = keepDoc
		if e1 == nil && e2 == nil && !openFails {
			cr.stdoutPath = "/dev/full"
			codeA, _, _ = cr.exec(cr.bin, dC, cliDoc, args...)
			codeB, _, _ = cr.exec(cr.ref, dD, cliDoc, string(scj))
			cr.stdoutPath = ""
			res.Asserts["cli-vs-library-devfull"]++
			if codeA >= 0 && codeB >= 0 && codeB < 97 && (codeA == 0) != (codeB == 0) {
				return fail(fmt.Sprintf("exit status with stdout=/dev/full: gtree %s exited %d, the library call returned %s", strings.Join(args, " "), codeA, map[bool]string{true: "nil", false: "an error"}[codeB == 0]))
			}
		}
	}
	return res
}

// readmeSampleTree: the console block of the README that documents 'gtree template | gtree output'
func readmeSampleTree() (string, bool) {
	b, err := os.ReadFile(filepath.Join(repoDir, "README.md"))
	if err != nil {
		return "", false
	}
	ls := strings.Split(string(b), "\n")
	for i, l := range ls {
		if strings.TrimSpace(l) == "$ gtree template | gtree output" {
			var out []string
			for _, m := range ls[i+1:] {
				if strings.HasPrefix(m, "```") || strings.HasPrefix(m, "$ ") {
					break
				}
				out = append(out, m)
			}
			if len(out) == 0 {
				return "", false
			}
			return strings.TrimRight(strings.Join(out, "\n"), "\n"), true
		}
	}
	return "", false
}

func clip(s string) string {
	if len(s) > 200 {
		return s[:200] + "..."
	}
	return s
}

func snapshotDir(dir string) string {
	var ents []string
	filepath.WalkDir(dir, func(p string, d fs.DirEntry, err error) error {
		if err != nil {
			return nil
		}
		rel, _ := filepath.Rel(dir, p)
		k := "f"
		if d.IsDir() {
			k = "d"
		}
		ents = append(ents, k+":"+rel)
		return nil
	})
	sort.Strings(ents)
	return strings.Join(ents, " ")
}

const stdinDevNull = "\x00/dev/null"

func (cr *cliReplayer) exec(bin, dir, stdin string, args ...string) (int, string, string) {
	ctx, cancel := context.WithTimeout(context.Background(), 30*time.Second)
	defer cancel()
	cmd := exec.CommandContext(ctx, bin, args...)
	cmd.Dir = dir
	cmd.Env = append(os.Environ(), "NO_COLOR=1")
	cmd.Stdin = strings.NewReader(stdin)
	if stdin == stdinDevNull {
		cmd.Stdin = nil // the null device: an empty document on a character device
	}
	var out, errb bytes.Buffer
	cmd.Stdout = &out
	if cr.stdoutPath != "" {
		if f, err := os.OpenFile(cr.stdoutPath, os.O_WRONLY, 0); err == nil {
			defer f.Close()
			cmd.Stdout = f
		}
	}
	cmd.Stderr = &errb
	err := cmd.Run()
	if err == nil {
		return 0, out.String(), errb.String()
	}
	if ee, ok := err.(*exec.ExitError); ok {
		return ee.ExitCode(), out.String(), errb.String()
	}
	return -1, out.String(), err.Error()
}
