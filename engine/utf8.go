package main

// UTF-8 decoding of strings made of literal and symbolic bytes, by case split on the byte classes of the encoding
// (the same table as unicode/utf8: first byte class, range of the second byte, continuation bytes). Used by
// range-over-string, utf8.DecodeRuneInString / DecodeLastRuneInString, and unicode.IsSpace on a symbolic rune.

const runeError = 0xFFFD

func (r *Run) byteIn(b *Term, lo, hi uint64) bool {
	if b.Op == "bvlit" {
		return b.Val >= lo && b.Val <= hi
	}
	var c *Term
	switch {
	case lo == hi:
		c = mkEq(b, mkBV(lo, 8))
	case lo == 0:
		c = mk("bvule", sortBool, b, mkBV(hi, 8))
	case hi == 0xFF:
		c = mk("bvuge", sortBool, b, mkBV(lo, 8))
	default:
		c = mk("and", sortBool, mk("bvuge", sortBool, b, mkBV(lo, 8)), mk("bvule", sortBool, b, mkBV(hi, 8)))
	}
	return r.branch(c)
}

var utf8Classes = []struct {
	lo, hi uint64
	size   int
	l1, h1 uint64
}{
	{0xC2, 0xDF, 2, 0x80, 0xBF}, {0xE0, 0xE0, 3, 0xA0, 0xBF}, {0xE1, 0xEC, 3, 0x80, 0xBF}, {0xED, 0xED, 3, 0x80, 0x9F},
	{0xEE, 0xEF, 3, 0x80, 0xBF}, {0xF0, 0xF0, 4, 0x90, 0xBF}, {0xF1, 0xF3, 4, 0x80, 0xBF}, {0xF4, 0xF4, 4, 0x80, 0x8F},
}

func runeVal(t *Term) IntV {
	if t.Op == "bvlit" {
		return IntV{C: t.Val}
	}
	return IntV{S: t}
}

func zext32(b *Term) *Term {
	if b.Op == "bvlit" {
		return mkBV(b.Val, 32)
	}
	return mk("(_ zero_extend 24)", bv(32), b)
}

func bits(b *Term, mask uint64, shift uint64) *Term {
	if b.Op == "bvlit" {
		return mkBV((b.Val&mask)<<shift, 32)
	}
	t := mk("bvand", bv(32), zext32(b), mkBV(mask, 32))
	if shift == 0 {
		return t
	}
	return mk("bvshl", bv(32), t, mkBV(shift, 32))
}

func or32(ts ...*Term) *Term {
	allLit := true
	v := uint64(0)
	for _, t := range ts {
		if t.Op != "bvlit" {
			allLit = false
		} else {
			v |= t.Val
		}
	}
	if allLit {
		return mkBV(v, 32)
	}
	acc := ts[0]
	for _, t := range ts[1:] {
		acc = mk("bvor", bv(32), acc, t)
	}
	return acc
}

// decodeAt decodes the rune that starts at bs[i] (i < len(bs)): value as a 32-bit term and width.
func (r *Run) decodeAt(bs []*Term, i int) (*Term, int) {
	b0 := bs[i]
	if r.byteIn(b0, 0, 0x7F) {
		return zext32(b0), 1
	}
	for _, c := range utf8Classes {
		if !r.byteIn(b0, c.lo, c.hi) {
			continue
		}
		if i+c.size > len(bs) {
			return mkBV(runeError, 32), 1
		}
		if !r.byteIn(bs[i+1], c.l1, c.h1) {
			return mkBV(runeError, 32), 1
		}
		for k := 2; k < c.size; k++ {
			if !r.byteIn(bs[i+k], 0x80, 0xBF) {
				return mkBV(runeError, 32), 1
			}
		}
		switch c.size {
		case 2:
			return or32(bits(b0, 0x1F, 6), bits(bs[i+1], 0x3F, 0)), 2
		case 3:
			return or32(bits(b0, 0x0F, 12), bits(bs[i+1], 0x3F, 6), bits(bs[i+2], 0x3F, 0)), 3
		}
		return or32(bits(b0, 0x07, 18), bits(bs[i+1], 0x3F, 12), bits(bs[i+2], 0x3F, 6), bits(bs[i+3], 0x3F, 0)), 4
	}
	return mkBV(runeError, 32), 1
}

func (e *Engine) registerUTF8Intrinsics() {
	in := e.intrinsics
	in["unicode/utf8.DecodeRuneInString"] = func(r *Run, fr *frame, a []Value) Value {
		bs := a[0].(StrV).bytesTerms()
		if len(bs) == 0 {
			return Tuple{IntV{C: runeError}, IntV{C: 0}}
		}
		t, n := r.decodeAt(bs, 0)
		return Tuple{runeVal(t), IntV{C: uint64(n)}}
	}
	in["unicode/utf8.DecodeLastRuneInString"] = func(r *Run, fr *frame, a []Value) Value {
		bs := a[0].(StrV).bytesTerms()
		end := len(bs)
		if end == 0 {
			return Tuple{IntV{C: runeError}, IntV{C: 0}}
		}
		start := end - 1
		if r.byteIn(bs[start], 0, 0x7F) {
			return Tuple{runeVal(zext32(bs[start])), IntV{C: 1}}
		}
		lim := end - 4
		if lim < 0 {
			lim = 0
		}
		for start--; start >= lim; start-- {
			if !r.byteIn(bs[start], 0x80, 0xBF) { // RuneStart
				break
			}
		}
		if start < 0 {
			start = 0
		}
		t, n := r.decodeAt(bs[start:end], 0)
		if start+n != end {
			return Tuple{IntV{C: runeError}, IntV{C: 1}}
		}
		return Tuple{runeVal(t), IntV{C: uint64(n)}}
	}
	in["unicode/utf8.RuneCountInString"] = func(r *Run, fr *frame, a []Value) Value {
		bs := a[0].(StrV).bytesTerms()
		n := 0
		for i := 0; i < len(bs); n++ {
			_, w := r.decodeAt(bs, i)
			i += w
		}
		return IntV{C: uint64(n)}
	}
	in["unicode/utf8.ValidString"] = func(r *Run, fr *frame, a []Value) Value {
		bs := a[0].(StrV).bytesTerms()
		for i := 0; i < len(bs); {
			t, w := r.decodeAt(bs, i)
			if w == 1 && t.Op == "bvlit" && t.Val == runeError {
				return BoolV{C: false} // an encoded U+FFFD has width 3
			}
			i += w
		}
		return BoolV{C: true}
	}
	in["unicode.IsSpace"] = func(r *Run, fr *frame, a []Value) Value {
		v := a[0].(IntV)
		isSp := func(c uint64) bool {
			switch {
			case c >= 9 && c <= 13, c == 0x20, c == 0x85, c == 0xA0, c == 0x1680, c >= 0x2000 && c <= 0x200A,
				c == 0x2028, c == 0x2029, c == 0x202F, c == 0x205F, c == 0x3000:
				return true
			}
			return false
		}
		if v.S == nil {
			return BoolV{C: isSp(v.C & 0xFFFFFFFF)}
		}
		t := v.term(32)
		rng := func(lo, hi uint64) *Term {
			return mk("and", sortBool, mk("bvuge", sortBool, t, mkBV(lo, 32)), mk("bvule", sortBool, t, mkBV(hi, 32)))
		}
		c := rng(9, 13)
		for _, x := range []uint64{0x20, 0x85, 0xA0, 0x1680, 0x2028, 0x2029, 0x202F, 0x205F, 0x3000} {
			c = mk("or", sortBool, c, mkEq(t, mkBV(x, 32)))
		}
		c = mk("or", sortBool, c, rng(0x2000, 0x200A))
		return BoolV{S: c}
	}
}
