package main

import (
	"fmt"
	"go/token"
	"go/types"
	"strings"

	"golang.org/x/tools/go/ssa"
)

// ---- cooperative goroutines: one host goroutine per interpreted goroutine, a single baton ----

type wakeMsg struct{ kill bool }

type gor struct {
	id      int
	wake    chan wakeMsg
	done    bool
	started bool
	blocked string // why it is parked ("" = runnable or running)
	vc      vclock // happens-before clock (race.go)
}

type ChanV struct {
	cap    int
	buf    []Value
	closed bool
	recvq  []*waiter
	sendq  []*waiter
	// happens-before clocks (race.go): of the buffered values, of the close, of the receives that freed a slot
	bufVC   []vclock
	closeVC vclock
	freeVC  []vclock
	nsend   int
}

type waiter struct {
	g     *gor
	val   Value  // value being sent
	slot  *Value // where a received value goes
	ok    *bool
	sel   *selState
	index int
	vc    vclock // clock of the parked goroutine when it parked (sender: the message's clock)
}

type selState struct {
	fired bool
	index int
}

type concState struct {
	main   *gor
	cur    *gor
	runq   []*gor
	all    []*gor
	nextID int
	wgs    map[Ptr]*wgState
	mus    map[Ptr]*muState
	events int // sync events so far (cancellation instants are indexed by this)
}

type wgState struct {
	n       int
	waiters []*gor
}
type muState struct {
	locked  bool
	waiters []*gor
}

func (r *Run) conc() *concState {
	if r.cs == nil {
		m := &gor{id: 0, wake: make(chan wakeMsg), started: true}
		r.cs = &concState{main: m, cur: m, all: []*gor{m}, nextID: 1, wgs: map[Ptr]*wgState{}, mus: map[Ptr]*muState{}}
	}
	return r.cs
}

func (r *Run) spawn(fr *frame, fn Value, args []Value) {
	cs := r.conc()
	g := &gor{id: cs.nextID, wake: make(chan wakeMsg)}
	cs.nextID++
	cs.all = append(cs.all, g)
	cs.runq = append(cs.runq, g)
	r.raceFork(cs.cur, g)
	go func() {
		m := <-g.wake
		g.started = true
		defer func() {
			p := recover()
			g.done = true
			if p != nil {
				if a, ok := p.(abortPath); ok && a.why == "killed" {
					cs.main.wake <- wakeMsg{} // ack kill
					return
				}
				// any other abort/panic in a goroutine ends the path: hand it to main
				r.gorPanic = p
				if cs.cur == g {
					cs.cur = cs.main
					cs.main.wake <- wakeMsg{}
				}
				return
			}
			r.schedule(nil) // goroutine finished: pass the baton
		}()
		if m.kill {
			panic(abortPath{"killed"})
		}
		r.call(fr, fn, args)
	}()
}

// schedule parks the current goroutine (if me != nil it stays alive and waits to be woken) and
// passes the baton to the next runnable goroutine. With me == nil the caller is exiting.
func (r *Run) schedule(me *gor) {
	cs := r.conc()
	r.event()
	if len(cs.runq) == 0 {
		// nobody can run
		if me == cs.main {
			panic(abortPath{"deadlock: main blocked forever (" + me.blocked + ")"})
		}
		// a non-main goroutine parks/exits and nothing is runnable: main must be blocked => deadlock,
		// unless main is waiting for quiescence
		if cs.main.blocked == "quiesce" {
			cs.main.blocked = ""
			cs.cur = cs.main
			cs.main.wake <- wakeMsg{}
		} else {
			r.gorPanic = abortPath{"deadlock: all goroutines blocked; main: " + cs.main.blocked}
			cs.cur = cs.main
			cs.main.wake <- wakeMsg{}
		}
	} else {
		// scheduling policy: fifo (default) or lifo over the run queue; every choice is a legal Go schedule
		idx := 0
		if strings.HasPrefix(r.eng.sched, "lifo") {
			idx = len(cs.runq) - 1
		}
		if strings.HasPrefix(r.eng.sched, "rnd") {
			idx = int(r.schedRand() % uint64(len(cs.runq)))
		}
		next := cs.runq[idx]
		cs.runq = append(cs.runq[:idx:idx], cs.runq[idx+1:]...)
		cs.cur = next
		if next == me {
			// the parking goroutine was made runnable again by the event that was just counted (its context was
			// cancelled while it was about to block on Done): it simply goes on
			return
		}
		next.wake <- wakeMsg{}
	}
	if me != nil {
		m := <-me.wake
		if m.kill {
			panic(abortPath{"killed"})
		}
		if me == cs.main && r.gorPanic != nil {
			p := r.gorPanic
			r.gorPanic = nil
			panic(p)
		}
	}
}

// event counts synchronisation events; the harness may ask for its context to be cancelled at event number k
func (r *Run) event() {
	cs := r.conc()
	cs.events++
	if r.cancelCtx != nil && cs.events == r.cancelAt {
		c := r.cancelCtx
		r.cancelCtx = nil
		// cancelled by the harness's environment, not by the goroutine that happens to be running: releases nothing
		if r.eng.race {
			r.rs().external = true
		}
		reason := r.cancelReason
		if reason == nil {
			reason = *r.global(r.eng.prog.ImportedPackage("context").Var("Canceled"))
		}
		c.cancel(reason)
		if r.eng.race {
			r.rs().external = false
		}
	}
}

// schedRand: the "rndK" policies. The schedule is a deterministic pseudo-random function of a seed in 0..K-1 that
// is itself a case-split symbol of the path (c_sched), so one job explores K different legal schedules per input.
func (r *Run) schedRand() uint64 {
	if !r.schedSeeded {
		r.schedSeeded = true
		k := 4
		fmt.Sscanf(strings.TrimPrefix(r.eng.sched, "rnd"), "%d", &k)
		x := r.fresh("c_sched", bv(64))
		r.schedState = uint64(k - 1)
		for v := 0; v < k-1; v++ {
			if r.branch(mkEq(x, mkBV(uint64(v), 64))) {
				r.schedState = uint64(v)
				break
			}
		}
		r.schedState = r.schedState*0x9E3779B97F4A7C15 + 0x1234567
	}
	r.schedState = r.schedState*6364136223846793005 + 1442695040888963407
	return r.schedState >> 33
}

// yield: the running goroutine goes to the back of the run queue (used by the "wyield" policies after every Write
// on the output: a cooperative stand-in for preemption between two printing goroutines).
func (r *Run) yield() {
	cs := r.conc()
	if len(cs.runq) == 0 {
		return
	}
	me := cs.cur
	cs.runq = append(cs.runq, me)
	r.schedule(me)
}

func (r *Run) block(why string) {
	cs := r.conc()
	me := cs.cur
	me.blocked = why
	r.schedule(me)
	me.blocked = ""
}

func (r *Run) ready(g *gor) {
	cs := r.conc()
	g.blocked = ""
	cs.runq = append(cs.runq, g)
}

// quiesce lets every runnable goroutine run until none is runnable; returns the number of
// goroutines (other than main) that are still alive, i.e. blocked forever.
func (r *Run) quiesce() int {
	cs := r.conc()
	for len(cs.runq) > 0 {
		cs.main.blocked = "quiesce"
		r.schedule(cs.main)
		cs.main.blocked = ""
	}
	n := 0
	for _, g := range cs.all {
		if g != cs.main && !g.done {
			n++
		}
	}
	return n
}

func (r *Run) killGors() {
	if r.cs == nil {
		return
	}
	for _, g := range r.cs.all {
		if g != r.cs.main && !g.done {
			g.wake <- wakeMsg{kill: true}
			<-r.cs.main.wake
		}
	}
}

// ---- channels ----

func (r *Run) chanSend(c *ChanV, v Value) {
	if c == nil {
		r.block("send on nil chan")
		panic(abortPath{"unreachable"})
	}
	r.event()
	if c.closed {
		panic(goPanic{strLit("send on closed channel")})
	}
	mc := r.raceMsgClock()
	if w := r.popWaiter(&c.recvq); w != nil {
		*w.slot = v
		if w.ok != nil {
			*w.ok = true
		}
		r.raceJoinInto(w.g, mc)
		if c.cap == 0 {
			r.raceJoin(w.vc) // unbuffered: the receive happens before the send completes
		}
		r.ready(w.g)
		return
	}
	if len(c.buf) < c.cap {
		r.bufSend(c, v, mc)
		return
	}
	me := r.conc().cur
	c.sendq = append(c.sendq, &waiter{g: me, val: v, vc: mc})
	r.block("chan send")
}

// bufSend puts a value into the buffer; the k-th receive happens before the (k+cap)-th send completes
func (r *Run) bufSend(c *ChanV, v Value, mc vclock) {
	c.buf = append(c.buf, v)
	if r.eng.race {
		c.bufVC = append(c.bufVC, mc)
		c.nsend++
		if c.nsend > c.cap && len(c.freeVC) > 0 {
			r.raceJoin(c.freeVC[0])
			c.freeVC = c.freeVC[1:]
		}
	}
}

func (r *Run) popWaiter(q *[]*waiter) *waiter {
	for len(*q) > 0 {
		w := (*q)[0]
		*q = (*q)[1:]
		if w.sel != nil {
			if w.sel.fired {
				continue
			}
			w.sel.fired = true
			w.sel.index = w.index
		}
		return w
	}
	return nil
}

func (r *Run) chanRecv(c *ChanV, et types.Type) (Value, bool) {
	if c == nil {
		r.block("recv on nil chan")
		panic(abortPath{"unreachable"})
	}
	r.event()
	if v, ok, done := r.tryRecv(c, et); done {
		return v, ok
	}
	me := r.conc().cur
	var slot Value
	okv := false
	c.recvq = append(c.recvq, &waiter{g: me, slot: &slot, ok: &okv, vc: r.raceMsgClock()})
	r.block("chan recv")
	if !okv {
		return zero(et), false
	}
	return slot, true
}

func (r *Run) tryRecv(c *ChanV, et types.Type) (Value, bool, bool) {
	if len(c.buf) > 0 {
		v := c.buf[0]
		c.buf = c.buf[1:]
		if r.eng.race && len(c.bufVC) > 0 {
			r.raceJoin(c.bufVC[0])
			c.bufVC = c.bufVC[1:]
			if mc := r.raceMsgClock(); mc != nil {
				c.freeVC = append(c.freeVC, mc)
			}
		}
		if w := r.popWaiter(&c.sendq); w != nil {
			// the parked sender's value moves into the slot this receive has just freed
			c.buf = append(c.buf, w.val)
			if r.eng.race {
				c.bufVC = append(c.bufVC, w.vc)
				c.nsend++
				if len(c.freeVC) > 0 {
					r.raceJoinInto(w.g, c.freeVC[0])
					c.freeVC = c.freeVC[1:]
				}
			}
			r.ready(w.g)
		}
		return v, true, true
	}
	if w := r.popWaiter(&c.sendq); w != nil {
		r.raceJoin(w.vc)
		r.raceJoinInto(w.g, r.raceMsgClock()) // unbuffered: the receive happens before the send completes
		r.ready(w.g)
		return w.val, true, true
	}
	if c.closed {
		r.raceJoin(c.closeVC)
		return zero(et), false, true
	}
	return nil, false, false
}

func (r *Run) chanClose(c *ChanV) {
	if c == nil {
		panic(goPanic{strLit("close of nil channel")})
	}
	if c.closed {
		panic(goPanic{strLit("close of closed channel")})
	}
	r.event()
	c.closed = true
	if r.raceOn() && !r.rs().external {
		c.closeVC = r.raceMsgClock()
	}
	for {
		w := r.popWaiter(&c.recvq)
		if w == nil {
			break
		}
		if w.ok != nil {
			*w.ok = false
		}
		r.raceJoinInto(w.g, c.closeVC)
		r.ready(w.g)
	}
	// stale select waiters (their select already fired on another case) are not blocked senders
	for _, w := range c.sendq {
		if w.sel == nil || !w.sel.fired {
			panic(goPanic{strLit("send on closed channel (blocked sender)")})
		}
	}
	c.sendq = nil
}

func (r *Run) selectStmt(fr *frame, instr *ssa.Select) Value {
	cs := r.conc()
	r.event()
	n := len(instr.States)
	res := make(Tuple, 2)
	recvVals := map[int]Value{}
	mk := func(idx int, ok bool) Value {
		res[0] = IntV{C: uint64(int64(idx))}
		res[1] = BoolV{C: ok}
		for i, st := range instr.States {
			if st.Dir == types.RecvOnly {
				if v, has := recvVals[i]; has {
					res = append(res, v)
				} else {
					res = append(res, zero(st.Chan.Type().Underlying().(*types.Chan).Elem()))
				}
			}
		}
		return res
	}
	chans := make([]*ChanV, n)
	for i, st := range instr.States {
		chans[i], _ = fr.get(st.Chan).(*ChanV)
	}
	// ready cases: first ready case in source order, or in reverse source order under the "lastsel" policies
	order := make([]int, n)
	rot := 0
	if strings.HasPrefix(r.eng.sched, "rnd") && n > 0 {
		rot = int(r.schedRand() % uint64(n))
	}
	for i := range order {
		order[i] = (i + rot) % n
		if strings.HasSuffix(r.eng.sched, "lastsel") {
			order[i] = n - 1 - i
		}
	}
	for _, i := range order {
		st := instr.States[i]
		c := chans[i]
		if c == nil {
			continue
		}
		if st.Dir == types.RecvOnly {
			if v, ok, done := r.tryRecv(c, st.Chan.Type().Underlying().(*types.Chan).Elem()); done {
				recvVals[i] = v
				return mk(i, ok)
			}
		} else {
			if c.closed {
				panic(goPanic{strLit("send on closed channel")})
			}
			if len(c.recvq) > 0 || len(c.buf) < c.cap {
				if w := r.popWaiter(&c.recvq); w != nil {
					*w.slot = fr.get(st.Send)
					if w.ok != nil {
						*w.ok = true
					}
					r.raceJoinInto(w.g, r.raceMsgClock())
					if c.cap == 0 {
						r.raceJoin(w.vc)
					}
					r.ready(w.g)
					return mk(i, false)
				}
				if len(c.buf) < c.cap {
					r.bufSend(c, fr.get(st.Send), r.raceMsgClock())
					return mk(i, false)
				}
			}
		}
	}
	if !instr.Blocking {
		return mk(-1, false)
	}
	sel := &selState{}
	me := cs.cur
	slots := make([]Value, n)
	oks := make([]bool, n)
	parkVC := r.raceMsgClock()
	for i, st := range instr.States {
		c := chans[i]
		if c == nil {
			continue
		}
		if st.Dir == types.RecvOnly {
			c.recvq = append(c.recvq, &waiter{g: me, slot: &slots[i], ok: &oks[i], sel: sel, index: i, vc: parkVC})
		} else {
			c.sendq = append(c.sendq, &waiter{g: me, val: fr.get(st.Send), sel: sel, index: i, vc: parkVC})
		}
	}
	r.block("select")
	if !sel.fired {
		panic("select woke without firing")
	}
	i := sel.index
	if instr.States[i].Dir == types.RecvOnly {
		if oks[i] {
			recvVals[i] = slots[i]
		}
		return mk(i, oks[i])
	}
	return mk(i, false)
}

// ---- context / errgroup / sync as engine-native objects ----

type ctxObj struct {
	tag      string
	done     *ChanV // nil => never cancelled
	err      Value
	children []*ctxObj
	r        *Run
}

func (c *ctxObj) cancel(err Value) {
	if c.done == nil || c.done.closed {
		return
	}
	c.err = err
	c.r.raceRelease(c)
	c.r.chanClose(c.done)
	for _, ch := range c.children {
		ch.cancel(err)
	}
}

func (c *ctxObj) method(name string) Value {
	switch name {
	case "Done":
		return &hostFunc{name: "ctx.Done", f: func(r *Run, fr *frame, a []Value) Value { return c.done }}
	case "Err":
		return &hostFunc{name: "ctx.Err", f: func(r *Run, fr *frame, a []Value) Value {
			r.raceAcquire(c)
			if c.err == nil {
				return Iface{}
			}
			return c.err
		}}
	}
	panic(unsupported("context method %s", name))
}

type egObj struct {
	n       int
	err     Value
	ctx     *ctxObj
	waiters []*gor
}

func (e *Engine) registerConcIntrinsics() {
	in := e.intrinsics
	ctxT := func(r *Run) types.Type {
		return r.eng.prog.ImportedPackage("context").Type("Context").Type()
	}
	canceled := func(r *Run) Value { return *r.global(r.eng.prog.ImportedPackage("context").Var("Canceled")) }
	in["context.Background"] = func(r *Run, fr *frame, a []Value) Value {
		return Iface{T: ctxT(r), V: &ctxObj{r: r}}
	}
	in["context.Cause"] = func(r *Run, fr *frame, a []Value) Value {
		// no WithCancelCause / WithTimeoutCause in the engine's contexts: the cause is the error
		c := a[0].(Iface).V.(*ctxObj)
		r.raceAcquire(c)
		if c.err == nil {
			return Iface{}
		}
		return c.err
	}
	in["context.WithCancel"] = func(r *Run, fr *frame, a []Value) Value {
		parent := a[0].(Iface).V.(*ctxObj)
		c := &ctxObj{r: r, done: &ChanV{}}
		parent.children = append(parent.children, c)
		if parent.done != nil && parent.done.closed {
			c.cancel(parent.err)
		}
		cancel := &hostFunc{name: "cancel", f: func(r *Run, fr *frame, a []Value) Value {
			c.cancel(canceled(r))
			return nil
		}}
		return Tuple{Iface{T: ctxT(r), V: c}, cancel}
	}
	const EG = "golang.org/x/sync/errgroup"
	in[EG+".WithContext"] = func(r *Run, fr *frame, a []Value) Value {
		parent := a[0].(Iface).V.(*ctxObj)
		c := &ctxObj{r: r, done: &ChanV{}}
		parent.children = append(parent.children, c)
		if parent.done != nil && parent.done.closed {
			c.cancel(parent.err)
		}
		g := &egObj{ctx: c}
		slot := new(Value)
		*slot = g
		return Tuple{Ptr(slot), Iface{T: ctxT(r), V: c}}
	}
	// egOf: the group behind the pointer; a zero-value errgroup.Group (no context: &errgroup.Group{} or a variable)
	// becomes a group whose context nobody sees
	egOf := func(r *Run, p Value) *egObj {
		slot := p.(Ptr)
		if g, ok := (*slot).(*egObj); ok {
			return g
		}
		g := &egObj{ctx: &ctxObj{r: r, done: &ChanV{}}}
		*slot = g
		return g
	}
	in["(*"+EG+".Group).Go"] = func(r *Run, fr *frame, a []Value) Value {
		g := egOf(r, a[0])
		f := a[1]
		g.n++
		body := &hostFunc{name: "errgroup.worker", f: func(r *Run, fr2 *frame, _ []Value) Value {
			res := r.call(fr2, f, nil)
			if e, ok := res.(Iface); ok && e.T != nil && g.err == nil {
				g.err = e
				g.ctx.cancel(e)
			}
			r.raceRelease(g)
			g.n--
			if g.n == 0 {
				for _, w := range g.waiters {
					r.ready(w)
				}
				g.waiters = nil
			}
			return nil
		}}
		r.spawn(fr, body, nil)
		return nil
	}
	in["(*"+EG+".Group).Wait"] = func(r *Run, fr *frame, a []Value) Value {
		g := egOf(r, a[0])
		for g.n > 0 {
			g.waiters = append(g.waiters, r.conc().cur)
			r.block("errgroup.Wait")
		}
		r.raceAcquire(g)
		g.ctx.cancel(canceled(r))
		if g.err == nil {
			return Iface{}
		}
		return g.err
	}
	wg := func(r *Run, p Value) *wgState {
		cs := r.conc()
		k := p.(Ptr)
		if s, ok := cs.wgs[k]; ok {
			return s
		}
		s := &wgState{}
		cs.wgs[k] = s
		return s
	}
	in["(*sync.WaitGroup).Add"] = func(r *Run, fr *frame, a []Value) Value {
		s := wg(r, a[0])
		r.raceRelease(s)
		s.n += r.concreteInt(a[1], "wg delta")
		if s.n < 0 {
			panic(goPanic{strLit("sync: negative WaitGroup counter")})
		}
		if s.n == 0 {
			for _, w := range s.waiters {
				r.ready(w)
			}
			s.waiters = nil
		}
		return nil
	}
	in["(*sync.WaitGroup).Done"] = func(r *Run, fr *frame, a []Value) Value {
		return in["(*sync.WaitGroup).Add"](r, fr, []Value{a[0], IntV{C: ^uint64(0)}})
	}
	in["(*sync.WaitGroup).Wait"] = func(r *Run, fr *frame, a []Value) Value {
		s := wg(r, a[0])
		for s.n > 0 {
			s.waiters = append(s.waiters, r.conc().cur)
			r.block("WaitGroup.Wait")
		}
		r.raceAcquire(s)
		return nil
	}
	mu := func(r *Run, p Value) *muState {
		cs := r.conc()
		k := p.(Ptr)
		if s, ok := cs.mus[k]; ok {
			return s
		}
		s := &muState{}
		cs.mus[k] = s
		return s
	}
	lock := func(r *Run, fr *frame, a []Value) Value {
		s := mu(r, a[0])
		for s.locked {
			s.waiters = append(s.waiters, r.conc().cur)
			r.block("Mutex.Lock")
		}
		s.locked = true
		r.raceAcquire(s)
		return nil
	}
	unlock := func(r *Run, fr *frame, a []Value) Value {
		s := mu(r, a[0])
		if !s.locked {
			panic(goPanic{strLit("sync: unlock of unlocked mutex")})
		}
		s.locked = false
		r.raceRelease(s)
		if len(s.waiters) > 0 {
			w := s.waiters[0]
			s.waiters = s.waiters[1:]
			r.ready(w)
		}
		return nil
	}
	for _, n := range []string{"(*sync.RWMutex).Lock", "(*sync.Mutex).Lock", "(*sync.RWMutex).RLock"} {
		in[n] = lock
	}
	for _, n := range []string{"(*sync.RWMutex).Unlock", "(*sync.Mutex).Unlock", "(*sync.RWMutex).RUnlock"} {
		in[n] = unlock
	}
	for _, G := range harnessPkgs {
		in[G+"verifQuiesce"] = func(r *Run, fr *frame, a []Value) Value {
			return IntV{C: uint64(r.quiesce())}
		}
		mkCtx := func(deadline bool) intrinsicFn {
			return func(r *Run, fr *frame, a []Value) Value {
				k := r.concreteInt(a[0], "verifCtx event")
				c := &ctxObj{r: r, done: &ChanV{}}
				reason := canceled(r)
				if deadline {
					reason = *r.global(r.eng.prog.ImportedPackage("context").Var("DeadlineExceeded"))
				}
				if k == 0 {
					c.cancel(reason)
				} else if k < 100000 {
					r.conc()
					r.cancelCtx, r.cancelAt, r.cancelReason = c, r.conc().events+k, reason
				}
				return Iface{T: ctxT(r), V: c}
			}
		}
		in[G+"verifCtx"] = mkCtx(false)
		in[G+"verifCtxDeadline"] = mkCtx(true)
	}
	_ = fmt.Sprint
}

// sync/atomic: under the cooperative scheduler one interpreted goroutine runs at a time and control changes hands
// only at blocking operations, so the atomic functions are plain loads, stores and read-modify-writes.
func (e *Engine) registerAtomicIntrinsics() {
	in := e.intrinsics
	kinds := map[string]types.Type{"Int32": types.Typ[types.Int32], "Int64": types.Typ[types.Int64], "Uint32": types.Typ[types.Uint32],
		"Uint64": types.Typ[types.Uint64], "Uintptr": types.Typ[types.Uintptr]}
	for name, t := range kinds {
		t := t
		in["sync/atomic.Load"+name] = func(r *Run, fr *frame, a []Value) Value {
			r.raceAcquire(atomicKey{a[0].(Ptr)})
			return copyVal(*a[0].(Ptr))
		}
		in["sync/atomic.Store"+name] = func(r *Run, fr *frame, a []Value) Value {
			r.raceAcquire(atomicKey{a[0].(Ptr)})
			r.raceRelease(atomicKey{a[0].(Ptr)})
			*a[0].(Ptr) = copyVal(a[1])
			return nil
		}
		in["sync/atomic.Swap"+name] = func(r *Run, fr *frame, a []Value) Value {
			r.raceAcquire(atomicKey{a[0].(Ptr)})
			r.raceRelease(atomicKey{a[0].(Ptr)})
			old := copyVal(*a[0].(Ptr))
			*a[0].(Ptr) = copyVal(a[1])
			return old
		}
		in["sync/atomic.Add"+name] = func(r *Run, fr *frame, a []Value) Value {
			r.raceAcquire(atomicKey{a[0].(Ptr)})
			r.raceRelease(atomicKey{a[0].(Ptr)})
			v := r.binop(token.ADD, t, *a[0].(Ptr), a[1])
			*a[0].(Ptr) = v
			return copyVal(v)
		}
		in["sync/atomic.CompareAndSwap"+name] = func(r *Run, fr *frame, a []Value) Value {
			r.raceAcquire(atomicKey{a[0].(Ptr)})
			r.raceRelease(atomicKey{a[0].(Ptr)})
			eq := r.binop(token.EQL, t, *a[0].(Ptr), a[1]).(BoolV)
			same := eq.C
			if eq.S != nil {
				same = r.branch(eq.S)
			}
			if same {
				*a[0].(Ptr) = copyVal(a[2])
			}
			return BoolV{C: same}
		}
	}
	// sync.Pool: Get returns the value put last (always a legal behaviour of the real pool: it may keep or drop values at
	// will; handing the same object to the next caller is what a per-P cache does), else New(). Put(x) synchronises
	// before the Get that returns x.
	in["(*sync.Pool).Put"] = func(r *Run, fr *frame, a []Value) Value {
		p := a[0].(Ptr)
		if r.pools == nil {
			r.pools = map[Ptr][]Value{}
		}
		if v, ok := a[1].(Iface); ok && v.T == nil {
			return nil
		}
		r.raceRelease(poolKey{p})
		r.pools[p] = append(r.pools[p], a[1])
		return nil
	}
	in["(*sync.Pool).Get"] = func(r *Run, fr *frame, a []Value) Value {
		p := a[0].(Ptr)
		if l := r.pools[p]; len(l) > 0 {
			v := l[len(l)-1]
			r.pools[p] = l[:len(l)-1]
			r.raceAcquire(poolKey{p})
			return v
		}
		st := (*p).(Struct)
		newf := st[len(st)-1] // New is the last field of sync.Pool
		if c, ok := newf.(*Closure); ok && c != nil {
			return r.call(fr, c, nil)
		}
		return Iface{}
	}
	in["sync/atomic.LoadPointer"] = func(r *Run, fr *frame, a []Value) Value {
		r.raceAcquire(atomicKey{a[0].(Ptr)})
		return *a[0].(Ptr)
	}
	in["sync/atomic.StorePointer"] = func(r *Run, fr *frame, a []Value) Value {
		r.raceAcquire(atomicKey{a[0].(Ptr)})
		r.raceRelease(atomicKey{a[0].(Ptr)})
		*a[0].(Ptr) = a[1]
		return nil
	}
}
