package main

import (
	"go/types"
	"strings"
)

// splitElems splits an atom/literal string into path elements at literal '/' bytes.
// Atoms are assumed '/'-free (verifName adds that constraint).
func splitElems(s StrV) (elems []StrV, absolute bool) {
	cur := StrV{}
	has := false
	first := true
	flush := func() {
		if has {
			elems = append(elems, cur)
		} else if first {
			// leading slash
		}
		cur, has = StrV{}, false
	}
	for _, g := range s.Segs {
		if g.Atom != nil || g.Byte != nil {
			cur = StrV{Segs: append(append([]Seg{}, cur.Segs...), g)}
			has = true
			first = false
			continue
		}
		lit := g.Lit
		for len(lit) > 0 {
			i := strings.IndexByte(lit, '/')
			if i < 0 {
				cur = concatStr(cur, strLit(lit))
				has = true
				first = false
				break
			}
			if i > 0 {
				cur = concatStr(cur, strLit(lit[:i]))
				has = true
			}
			if first && !has {
				absolute = true
			}
			first = false
			flush()
			lit = lit[i+1:]
		}
	}
	flush()
	return
}

// joinContract is the element-level model of path.Join / filepath.Join for arguments made of
// valid elements (atoms) and literal separators; justified by the byte-level lemma L-path.
func joinContract(args []StrV) StrV {
	var elems []StrV
	abs := false
	nonEmpty := false
	for i, a := range args {
		if len(a.Segs) == 0 {
			continue
		}
		e, ab := splitElems(a)
		if !nonEmpty && ab {
			abs = true
		}
		_ = i
		nonEmpty = true
		for _, x := range e {
			if x.isConcrete() {
				switch x.concrete() {
				case "", ".":
					continue
				case "..":
					panic(unsupported("joinContract: literal .. element"))
				}
			}
			elems = append(elems, x)
		}
	}
	if !nonEmpty {
		return StrV{}
	}
	out := StrV{}
	if abs {
		out = strLit("/")
	}
	for i, e := range elems {
		if i > 0 {
			out = concatStr(out, strLit("/"))
		}
		out = concatStr(out, e)
	}
	if len(out.Segs) == 0 {
		return strLit(".")
	}
	return out
}

func (e *Engine) registerFSIntrinsics() {
	in := e.intrinsics
	const G = "github.com/ddddddO/gtree."
	in[G+"verifPathElems"] = func(r *Run, fr *frame, a []Value) Value {
		el, abs := splitElems(a[0].(StrV))
		var data []Value
		if abs {
			data = append(data, strLit("/"))
		}
		for _, x := range el {
			data = append(data, x)
		}
		return SliceV{Data: data}
	}
	anyAtom := func(vs []Value) bool {
		for _, v := range vs {
			if v.(StrV).hasAtom() {
				return true
			}
		}
		return false
	}
	join := func(pkg string) intrinsicFn {
		return func(r *Run, fr *frame, a []Value) Value {
			args := a[0].(SliceV).Data
			if !anyAtom(args) {
				return r.callBody(fr, pkg, "Join", a)
			}
			var ss []StrV
			for _, v := range args {
				ss = append(ss, v.(StrV))
			}
			return joinContract(ss)
		}
	}
	in["path.Join"] = join("path")
	in["path/filepath.Join"] = join("path/filepath")
	in["io/fs.ValidPath"] = func(r *Run, fr *frame, a []Value) Value {
		s := a[0].(StrV)
		if !s.hasAtom() {
			return r.callBody(fr, "io/fs", "ValidPath", a)
		}
		// built from valid elements by joinContract => valid
		return BoolV{C: true}
	}
	in["strings.ContainsAny"] = func(r *Run, fr *frame, a []Value) Value {
		s, chars := a[0].(StrV), a[1].(StrV)
		if !s.hasAtom() {
			return r.callBody(fr, "strings", "ContainsAny", a)
		}
		if chars.isConcrete() && len(chars.concrete()) == 1 {
			return BoolV{S: mk("str.contains", sortBool, s.term(), mkStrLit(chars.concrete()))}
		}
		panic(unsupported("ContainsAny on atom with multi-char set"))
	}
	in["strings.HasPrefix"] = func(r *Run, fr *frame, a []Value) Value {
		s, pre := a[0].(StrV), a[1].(StrV)
		if !s.hasAtom() && !pre.hasAtom() {
			return r.callBody(fr, "strings", "HasPrefix", a)
		}
		if pre.isConcrete() && len(s.Segs) > 0 && s.Segs[0].Atom == nil && s.Segs[0].Byte == nil && len(s.Segs[0].Lit) >= len(pre.concrete()) {
			return BoolV{C: strings.HasPrefix(s.Segs[0].Lit, pre.concrete())}
		}
		return BoolV{S: mk("str.prefixof", sortBool, pre.term(), s.term())}
	}
	in["strings.HasSuffix"] = func(r *Run, fr *frame, a []Value) Value {
		s, suf := a[0].(StrV), a[1].(StrV)
		if !s.hasAtom() && !suf.hasAtom() {
			return r.callBody(fr, "strings", "HasSuffix", a)
		}
		return BoolV{S: mk("str.suffixof", sortBool, suf.term(), s.term())}
	}
	in["strings.TrimSuffix"] = func(r *Run, fr *frame, a []Value) Value {
		s, suf := a[0].(StrV), a[1].(StrV)
		if !s.hasAtom() && !suf.hasAtom() {
			return r.callBody(fr, "strings", "TrimSuffix", a)
		}
		if suf.isConcrete() && len(s.Segs) > 0 {
			last := s.Segs[len(s.Segs)-1]
			if last.Atom == nil && last.Byte == nil {
				if strings.HasSuffix(last.Lit, suf.concrete()) {
					segs := append([]Seg{}, s.Segs[:len(s.Segs)-1]...)
					if rest := strings.TrimSuffix(last.Lit, suf.concrete()); rest != "" {
						segs = append(segs, Seg{Lit: rest})
					}
					return StrV{Segs: segs}
				}
				if len(last.Lit) >= len(suf.concrete()) {
					return s
				}
			}
		}
		// structural case: s ends with exactly the segments of suf
		if n, m := len(s.Segs), len(suf.Segs); m > 0 && n >= m {
			same := true
			for i := 0; i < m; i++ {
				x, y := s.Segs[n-m+i], suf.Segs[i]
				if !(x.Atom != nil && y.Atom != nil && x.Atom.Name == y.Atom.Name) {
					same = false
				}
			}
			if same {
				return StrV{Segs: append([]Seg{}, s.Segs[:n-m]...)}
			}
		}
		if r.branch(mk("str.suffixof", sortBool, suf.term(), s.term())) {
			t := r.fresh("trim", sortStr)
			r.pc = append(r.pc, mkEq(s.term(), mk("str.++", sortStr, t, suf.term())))
			return StrV{Segs: []Seg{{Atom: t}}}
		}
		return s
	}
	// os.* forwarded to the harness's file-system model (plain Go, symbolically executed)
	callH := func(r *Run, fr *frame, name string, args ...Value) Value {
		f := r.eng.prog.ImportedPackage("github.com/ddddddO/gtree").Func(name)
		return r.callFunc(fr, f, args, nil)
	}
	notExist := func(r *Run) Value { return *r.global(r.eng.prog.ImportedPackage("io/fs").Var("ErrNotExist")) }
	refused := func(r *Run) Value {
		return *r.global(r.eng.prog.ImportedPackage("github.com/ddddddO/gtree").Var("verifErrRefused"))
	}
	in["os.Stat"] = func(r *Run, fr *frame, a []Value) Value {
		k := r.concreteInt(callH(r, fr, "vfsStat", a[0]), "vfsStat")
		switch k {
		case 0:
			return Tuple{Iface{}, notExist(r)}
		case 3:
			return Tuple{Iface{}, refused(r)}
		}
		return Tuple{Iface{T: r.eng.prog.ImportedPackage("io/fs").Type("FileInfo").Type(), V: &fileInfoObj{dir: k == 1}}, Iface{}}
	}
	// Lstat: as Stat, except that a symbolic link is reported as itself (not a directory)
	in["os.Lstat"] = func(r *Run, fr *frame, a []Value) Value {
		if f := r.eng.prog.ImportedPackage("github.com/ddddddO/gtree").Func("vfsIsLink"); f != nil {
			if r.callFunc(fr, f, []Value{a[0]}, nil).(BoolV).C {
				return Tuple{Iface{T: r.eng.prog.ImportedPackage("io/fs").Type("FileInfo").Type(), V: &fileInfoObj{dir: false}}, Iface{}}
			}
		}
		if f := r.eng.prog.ImportedPackage("github.com/ddddddO/gtree").Func("vfsLstat"); f != nil {
			switch k := r.concreteInt(r.callFunc(fr, f, []Value{a[0]}, nil), "vfsLstat"); k {
			case 0:
				return Tuple{Iface{}, notExist(r)}
			case 3:
				return Tuple{Iface{}, refused(r)}
			default:
				return Tuple{Iface{T: r.eng.prog.ImportedPackage("io/fs").Type("FileInfo").Type(), V: &fileInfoObj{dir: k == 1}}, Iface{}}
			}
		}
		return in["os.Stat"](r, fr, a)
	}
	in["os.IsNotExist"] = func(r *Run, fr *frame, a []Value) Value {
		return r.equal(nil, a[0], notExist(r))
	}
	in["os.MkdirAll"] = func(r *Run, fr *frame, a []Value) Value {
		if f := r.eng.prog.ImportedPackage("github.com/ddddddO/gtree").Func("vfsMkdirAllK"); f != nil {
			switch r.concreteInt(r.callFunc(fr, f, []Value{a[0]}, nil), "vfsMkdirAllK") {
			case 0:
				return Iface{}
			case 2:
				return *r.global(r.eng.prog.ImportedPackage("io/fs").Var("ErrExist"))
			}
			return refused(r)
		}
		if callH(r, fr, "vfsMkdirAll", a[0]).(BoolV).C {
			return Iface{}
		}
		return refused(r)
	}
	in["os.Create"] = func(r *Run, fr *frame, a []Value) Value {
		if callH(r, fr, "vfsCreate", a[0]).(BoolV).C {
			slot := new(Value)
			*slot = &fileObj{}
			return Tuple{Ptr(slot), Iface{}}
		}
		return Tuple{Ptr(nil), refused(r)}
	}
	in["(*os.File).Close"] = func(r *Run, fr *frame, a []Value) Value { return Iface{} }
	// os.OpenFile for the flag combinations that create files
	exist := func(r *Run) Value { return *r.global(r.eng.prog.ImportedPackage("io/fs").Var("ErrExist")) }
	in["os.OpenFile"] = func(r *Run, fr *frame, a []Value) Value {
		flags := r.concreteInt(a[1], "OpenFile flags")
		const oCreate, oExcl, oTrunc = 0x40, 0x80, 0x200
		ok := func() Value {
			slot := new(Value)
			*slot = &fileObj{}
			return Tuple{Ptr(slot), Iface{}}
		}
		switch {
		case flags&oCreate != 0 && flags&oExcl != 0:
			switch r.concreteInt(callH(r, fr, "vfsCreateExcl", a[0]), "vfsCreateExcl") {
			case 0:
				return ok()
			case 1:
				return Tuple{Ptr(nil), exist(r)}
			}
			return Tuple{Ptr(nil), refused(r)}
		case flags&oCreate != 0 && flags&oTrunc != 0:
			if callH(r, fr, "vfsCreate", a[0]).(BoolV).C {
				return ok()
			}
			return Tuple{Ptr(nil), refused(r)}
		}
		panic(unsupported("os.OpenFile with flags %#x", flags))
	}
	in["os.IsExist"] = func(r *Run, fr *frame, a []Value) Value {
		return r.equal(nil, a[0], exist(r))
	}
	in["os.ReadDir"] = func(r *Run, fr *frame, a []Value) Value {
		names := callH(r, fr, "vfsReadDir", a[0]).(SliceV)
		if names.Nil || names.Data == nil {
			return Tuple{SliceV{Nil: true}, notExist(r)}
		}
		kinds := callH(r, fr, "vfsReadDirKinds", a[0]).(SliceV)
		deT := r.eng.prog.ImportedPackage("io/fs").Type("DirEntry").Type()
		var out []Value
		for i, n := range names.Data {
			out = append(out, Iface{T: deT, V: &dirEntryObj{name: n.(StrV), dir: r.concreteInt(kinds.Data[i], "kind") == 1}})
		}
		return Tuple{SliceV{Data: out}, Iface{}}
	}
	in["os.Mkdir"] = func(r *Run, fr *frame, a []Value) Value {
		switch r.concreteInt(callH(r, fr, "vfsMkdir", a[0]), "vfsMkdir") {
		case 0:
			return Iface{}
		case 1:
			return exist(r)
		}
		return refused(r)
	}
	in["os.WriteFile"] = func(r *Run, fr *frame, a []Value) Value {
		if callH(r, fr, "vfsCreate", a[0]).(BoolV).C {
			return Iface{}
		}
		return refused(r)
	}
	in["os.Remove"] = func(r *Run, fr *frame, a []Value) Value {
		if callH(r, fr, "vfsRemove", a[0], BoolV{C: false}).(BoolV).C {
			return Iface{}
		}
		return refused(r)
	}
	in["os.RemoveAll"] = func(r *Run, fr *frame, a []Value) Value {
		if callH(r, fr, "vfsRemove", a[0], BoolV{C: true}).(BoolV).C {
			return Iface{}
		}
		return refused(r)
	}
}

type fileInfoObj struct{ dir bool }

func (f *fileInfoObj) method(name string) Value {
	if name == "IsDir" {
		return &hostFunc{name: "FileInfo.IsDir", f: func(r *Run, fr *frame, a []Value) Value { return BoolV{C: f.dir} }}
	}
	panic(unsupported("FileInfo." + name))
}

type fileObj struct{}

type dirEntryObj struct {
	name StrV
	dir  bool
}

func (d *dirEntryObj) method(name string) Value {
	switch name {
	case "Name":
		return &hostFunc{name: "DirEntry.Name", f: func(r *Run, fr *frame, a []Value) Value { return d.name }}
	case "IsDir":
		return &hostFunc{name: "DirEntry.IsDir", f: func(r *Run, fr *frame, a []Value) Value { return BoolV{C: d.dir} }}
	}
	panic(unsupported("DirEntry." + name))
}

// ---- verify-side stubs: os.DirFS + fs.WalkDir over the harness model, errors.Is, fmt.Sprintf ----

type dirFSObj struct{ dir StrV }

func (d *dirFSObj) method(name string) Value { panic(unsupported("fs.FS." + name)) }

func (e *Engine) registerVerifyIntrinsics() {
	in := e.intrinsics
	fsT := func(r *Run) interface{} { return nil }
	_ = fsT
	in["os.DirFS"] = func(r *Run, fr *frame, a []Value) Value {
		return Iface{T: r.eng.prog.ImportedPackage("io/fs").Type("FS").Type(), V: &dirFSObj{dir: a[0].(StrV)}}
	}
	in["io/fs.WalkDir"] = func(r *Run, fr *frame, a []Value) Value {
		fsys := a[0].(Iface).V.(*dirFSObj)
		// the root of the walk: "." is the directory of the FS itself; anything else is a path inside it, and fn then
		// sees root for the top entry and root/<relative path> below it (fs.WalkDir joins with path.Join)
		root := a[1].(StrV)
		rootIsDot := root.isConcrete() && root.concrete() == "."
		if root.isConcrete() && root.concrete() == "" {
			panic(unsupported("fs.WalkDir with an empty root"))
		}
		top := fsys.dir
		outer := func(p StrV) StrV { return p }
		if !rootIsDot {
			top = concatStr(concatStr(fsys.dir, strLit("/")), root)
			outer = func(p StrV) StrV {
				if p.isConcrete() && p.concrete() == "." {
					return root
				}
				return concatStr(concatStr(root, strLit("/")), p)
			}
		}
		// fs.Stat of the walk root follows a symbolic link (os.DirFS opens root/. or root/<path>)
		return r.walkModel(fr, top, outer, rootIsDot, false, a[2])
	}
	// filepath.WalkDir(root, fn): fn sees root itself and root/<relative path>; the root is examined with Lstat, so a
	// root that is a symbolic link (to a directory) is visited as a single non-directory entry and not descended
	in["path/filepath.WalkDir"] = func(r *Run, fr *frame, a []Value) Value {
		root := a[0].(StrV)
		outer := func(p StrV) StrV {
			if p.isConcrete() && p.concrete() == "." {
				return root
			}
			return concatStr(concatStr(root, strLit("/")), p)
		}
		return r.walkModel(fr, root, outer, false, true, a[1])
	}
}

// walkModel: the directory walk over the harness's file-system model. top: OS path of the walk root; outer maps the
// model's relative paths ("." for the root) to what fn is given; dotOfFileFS: the walk is fs.WalkDir(os.DirFS(top), "."),
// which fails with ENOTDIR when top is a regular file; lstatRoot: the root is not followed if it is a symbolic link.
func (r *Run) walkModel(fr *frame, top StrV, outer func(StrV) StrV, dotOfFileFS, lstatRoot bool, fn Value) Value {
	gp := r.eng.prog.ImportedPackage("github.com/ddddddO/gtree")
	rootIsDot := dotOfFileFS
	isLink := func(p StrV) bool {
		f := gp.Func("vfsIsLink")
		if f == nil {
			return false
		}
		return r.callFunc(fr, f, []Value{p}, nil).(BoolV).C
	}
	notDir := func() Value {
		if v := gp.Var("verifErrNotDir"); v != nil {
			return *r.global(v)
		}
		return *r.global(gp.Var("verifErrRefused"))
	}
	list := r.callFunc(fr, gp.Func("vfsList"), []Value{top}, nil).(SliceV)
	notExist := *r.global(r.eng.prog.ImportedPackage("io/fs").Var("ErrNotExist"))
	skipAll := *r.global(r.eng.prog.ImportedPackage("io/fs").Var("SkipAll"))
	skipDir := *r.global(r.eng.prog.ImportedPackage("io/fs").Var("SkipDir"))
	if lstatRoot && !list.Nil && len(list.Data) > 0 && isLink(top) {
		res := r.call(fr, fn, []Value{outer(strLit(".")), Iface{}, Iface{}}).(Iface)
		if res.T != nil && (r.equal(nil, res, skipAll).C || r.equal(nil, res, skipDir).C) {
			return Iface{}
		}
		return res
	}
	if len(list.Data) == 1 && list.Data[0].(StrV).isConcrete() && list.Data[0].(StrV).concrete() == "!file" {
		// the root of the walk is a regular file. Walking "." of DirFS(file): fs.Stat(fsys, ".") fails with ENOTDIR and
		// WalkDir hands that error to fn. Walking a file inside the FS: it is visited as a single entry.
		var werr Value = Iface{}
		if rootIsDot {
			werr = notDir()
		}
		res := r.call(fr, fn, []Value{outer(strLit(".")), Iface{}, werr}).(Iface)
		if res.T != nil && (r.equal(nil, res, skipAll).C || r.equal(nil, res, skipDir).C) {
			return Iface{}
		}
		return res
	}
	if list.Nil || len(list.Data) == 0 {
		// nothing at the walk's root: "does not exist", unless a component of the path is a regular file (ENOTDIR)
		if r.concreteInt(r.callFunc(fr, gp.Func("vfsStat"), []Value{top}, nil), "vfsStat") == 3 {
			notExist = notDir()
		}
		res := r.call(fr, fn, []Value{outer(strLit(".")), Iface{}, notExist}).(Iface)
		if res.T != nil && (r.equal(nil, res, skipAll).C || r.equal(nil, res, skipDir).C) {
			return Iface{}
		}
		return res
	}
	kinds := r.callFunc(fr, gp.Func("vfsListKinds"), []Value{top}, nil).(SliceV)
	// fs.WalkDir semantics of SkipDir: returned for a directory, its subtree is skipped; returned for a file, the
	// remaining entries of the containing directory are skipped. Entries are relative paths; e is inside d iff
	// its element list has d's as a proper prefix.
	elemsOf := func(v Value) []StrV { el, _ := splitElems(v.(StrV)); return el }
	sameEl := func(a, b StrV) bool {
		e := r.strEqual(a, b)
		if e.S != nil {
			return r.branch(e.S)
		}
		return e.C
	}
	hasPrefix := func(e, d []StrV) bool {
		if len(e) < len(d) {
			return false
		}
		for i := range d {
			if !sameEl(e[i], d[i]) {
				return false
			}
		}
		return true
	}
	skipped := make([]bool, len(list.Data))
	// an entry below the walk root that is a symbolic link is listed but never descended
	for i := 1; i < len(list.Data); i++ {
		if isLink(concatStr(concatStr(top, strLit("/")), list.Data[i].(StrV))) {
			me := elemsOf(list.Data[i])
			for j := i + 1; j < len(list.Data); j++ {
				if ej := elemsOf(list.Data[j]); len(ej) > len(me) && hasPrefix(ej, me) {
					skipped[j] = true
				}
			}
		}
	}
	for i, p := range list.Data {
		if skipped[i] {
			continue
		}
		res := r.call(fr, fn, []Value{outer(p.(StrV)), Iface{}, Iface{}}).(Iface)
		if res.T != nil {
			if r.equal(nil, res, skipAll).C {
				return Iface{}
			}
			if r.equal(nil, res, skipDir).C {
				if i == 0 {
					return Iface{} // SkipDir on the root of the walk ends it
				}
				me := elemsOf(p)
				isDir := i < len(kinds.Data) && r.concreteInt(kinds.Data[i], "kind") == 1
				for j := i + 1; j < len(list.Data); j++ {
					ej := elemsOf(list.Data[j])
					if isDir {
						if len(ej) > len(me) && hasPrefix(ej, me) {
							skipped[j] = true
						}
					} else if len(me) > 0 && len(ej) >= len(me) && hasPrefix(ej, me[:len(me)-1]) {
						skipped[j] = true // a later entry of the same directory (or beneath one)
					}
				}
				continue
			}
			return res
		}
	}
	return Iface{}
}

// registerFmtIntrinsics: fmt.Sprintf / errors.Is models used by every configuration.
func (e *Engine) registerFmtIntrinsics() {
	in := e.intrinsics
	// errors.Is: identity along the Unwrap chain (no Is methods, no multi-errors in the code under test)
	in["errors.Is"] = func(r *Run, fr *frame, a []Value) Value {
		cur := a[0].(Iface)
		for i := 0; i < 16; i++ {
			if cur.T == nil {
				return BoolV{C: isNilValue(a[1])}
			}
			e := r.equal(nil, cur, a[1])
			if e.S != nil {
				panic(unsupported("errors.Is on symbolic error identity"))
			}
			if e.C {
				return BoolV{C: true}
			}
			if _, host := cur.V.(hostObj); host {
				return BoolV{C: false}
			}
			if r.eng.prog.MethodSets.MethodSet(cur.T).Lookup(nil, "Unwrap") == nil {
				return BoolV{C: false} // end of the chain
			}
			m := r.eng.prog.LookupMethod(cur.T, nil, "Unwrap")
			if m == nil || m.Signature.Results().Len() != 1 {
				return BoolV{C: false}
			}
			res := r.callFunc(fr, m, []Value{cur.V}, nil)
			if list, isList := res.(SliceV); isList {
				// Unwrap() []error (errors.Join, fmt.Errorf with several %w): depth-first over the list
				for _, e := range list.Data {
					if in["errors.Is"](r, fr, []Value{e, a[1]}).(BoolV).C {
						return BoolV{C: true}
					}
				}
				return BoolV{C: false}
			}
			nx, ok := res.(Iface)
			if !ok {
				return BoolV{C: false}
			}
			cur = nx
		}
		return BoolV{C: false}
	}
	in["fmt.Sprintf"] = func(r *Run, fr *frame, a []Value) Value {
		return r.sprintfV(a[0].(StrV), a[1].(SliceV).Data)
	}
	// fmt.Fprintf = one Write of the formatted text
	in["fmt.Fprintf"] = func(r *Run, fr *frame, a []Value) Value {
		w := a[0].(Iface)
		s := r.sprintfV(a[1].(StrV), a[2].(SliceV).Data)
		if p, ok := w.V.(Ptr); ok && p != nil {
			if b, ok := (*p).(*bufWriterObj); ok {
				b.buf = concatStr(b.buf, s)
				return Tuple{r.strLen(s), Iface{}}
			}
		}
		m := r.eng.prog.LookupMethod(w.T, nil, "Write")
		if m == nil {
			panic(unsupported("Write method not found on %v", w.T))
		}
		return r.callFunc(fr, m, []Value{w.V, BytesOf{S: s}}, nil)
	}
	in["(*github.com/fatih/color.Color).Sprintf"] = func(r *Run, fr *frame, a []Value) Value {
		return r.sprintfV(a[1].(StrV), a[2].(SliceV).Data)
	}
	// fmt.Errorf without %w is errors.New(Sprintf(...)) (fmt/errors.go); the real errors.New is executed
	in["fmt.Errorf"] = func(r *Run, fr *frame, a []Value) Value {
		f := a[0].(StrV).concrete()
		msg := r.sprintf(f, a[1].(SliceV).Data)
		if n := strings.Count(f, "%w"); n == 1 {
			// one %w: *fmt.wrapError{msg, err}; its Error and Unwrap methods are the real code
			wi := 0
			for i := 0; i+1 < len(f) && !(f[i] == '%' && f[i+1] == 'w'); i++ {
				if f[i] == '%' {
					if f[i+1] != '%' {
						wi++
					}
					i++
				}
			}
			wt := r.eng.prog.ImportedPackage("fmt").Type("wrapError")
			if wt == nil {
				panic(unsupported("fmt.wrapError not in the program"))
			}
			slot := new(Value)
			*slot = Struct{msg, a[1].(SliceV).Data[wi]}
			return Iface{T: types.NewPointer(wt.Type()), V: Ptr(slot)}
		} else if n > 1 {
			panic(unsupported("fmt.Errorf with several %%w"))
		}
		return r.callFunc(fr, r.eng.prog.ImportedPackage("errors").Func("New"), []Value{msg}, nil)
	}
}

// sprintfV: formatting with a format string that may be symbolic. A literal format is interpreted; an opaque
// format without operands is the identity iff it contains no '%' (every '%' changes the text: a verb is consumed or
// reported as missing, "%%" becomes "%"), otherwise the result is some other string.
func (r *Run) sprintfV(f StrV, args []Value) StrV {
	if f.isConcrete() {
		return r.sprintf(f.concrete(), args)
	}
	if len(args) == 0 && f.hasAtom() {
		if r.branch(mk("str.contains", sortBool, f.term(), mkStrLit("%"))) {
			x := r.fresh("s_fmt", sortStr)
			r.pc = append(r.pc, mkNot(mkEq(x, f.term())))
			return StrV{Segs: []Seg{{Atom: x}}}
		}
		return f
	}
	// a format put together from literal pieces and symbolic ones (user-supplied strings in format position), with
	// operands: the literal pieces are interpreted; a symbolic piece without '%' is copied; one that contains '%'
	// makes everything from there on some other text (its verbs consume operands, report missing ones, ...)
	out := StrV{}
	rest := args
	for si, g := range f.Segs {
		switch {
		case g.Atom != nil:
			if r.branch(mk("str.contains", sortBool, g.Atom, mkStrLit("%"))) {
				return concatStr(out, StrV{Segs: []Seg{{Atom: r.fresh("s_fmt", sortStr)}}})
			}
			out = concatStr(out, StrV{Segs: []Seg{g}})
		case g.Byte != nil:
			if r.branch(mkEq(g.Byte, mkBV('%', 8))) {
				return concatStr(out, StrV{Segs: []Seg{{Atom: r.fresh("s_fmt", sortStr)}}})
			}
			out = concatStr(out, StrV{Segs: []Seg{g}})
		default:
			if strings.HasSuffix(g.Lit, "%") && !strings.HasSuffix(g.Lit, "%%") && si+1 < len(f.Segs) {
				panic(unsupported("Sprintf: a verb split between a literal and a symbolic piece of the format"))
			}
			n := 0
			for i := 0; i+1 < len(g.Lit); i++ {
				if g.Lit[i] == '%' {
					if g.Lit[i+1] != '%' {
						n++
					}
					i++
				}
			}
			if n > len(rest) {
				panic(unsupported("Sprintf: more verbs than operands"))
			}
			out = concatStr(out, r.sprintf(g.Lit, rest[:n]))
			rest = rest[n:]
		}
	}
	if len(rest) > 0 {
		panic(unsupported("Sprintf: operands left over (%%!(EXTRA ...))"))
	}
	return out
}

func (r *Run) sprintf(f string, args []Value) StrV {
	out := StrV{}
	ai := 0
	for i := 0; i < len(f); i++ {
		if f[i] != '%' {
			out = concatStr(out, strLit(string(f[i])))
			continue
		}
		i++
		switch f[i] {
		case 's', 'v', 'w':
			iv := args[ai].(Iface)
			v := iv.V
			ai++
			sv, ok := v.(StrV)
			if !ok {
				// an error (or Stringer) operand prints as its Error() / String() text
				if iv.T != nil {
					for _, mn := range []string{"Error", "String"} {
						if r.eng.prog.MethodSets.MethodSet(iv.T).Lookup(nil, mn) != nil {
							if m := r.eng.prog.LookupMethod(iv.T, nil, mn); m != nil {
								if res, isStr := r.callFunc(nil, m, []Value{v}, nil).(StrV); isStr {
									sv, ok = res, true
								}
							}
							break
						}
					}
				}
				if !ok {
					panic(unsupported("Sprintf %%%c of %T", f[i], v))
				}
			}
			out = concatStr(out, sv)
		case 'd':
			v := args[ai].(Iface).V.(IntV)
			ai++
			if v.S != nil {
				panic(unsupported("Sprintf %%d of symbolic int"))
			}
			out = concatStr(out, strLit(fmtInt(int64(v.C))))
		case '%':
			out = concatStr(out, strLit("%"))
		default:
			panic(unsupported("Sprintf verb %%%c", f[i]))
		}
	}
	return out
}

func fmtInt(v int64) string {
	if v == 0 {
		return "0"
	}
	neg := v < 0
	if neg {
		v = -v
	}
	s := ""
	for v > 0 {
		s = string(rune('0'+v%10)) + s
		v /= 10
	}
	if neg {
		s = "-" + s
	}
	return s
}
