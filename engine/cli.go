package main

import (
	"fmt"
	"go/types"
	"strings"

	"golang.org/x/tools/go/ssa"
)

// Stubs for the C16 harnesses (package main of cmd/gtree).
//   * urfave/cli: (*cli.Context) getters return symbolic flag values memoised by flag name; (*cli.App).Run is
//     replaced by its exit-coder contract (see harness/main/c16.go); cli.Exit / exitError are the real code.
//   * gtree.OutputFromMarkdown / MkdirFromMarkdown / VerifyFromMarkdown: recording stubs. The options they receive
//     are applied by the REAL gtree.newConfig and the resulting configuration, the writer and the reader are
//     rendered into a call record the harness compares with what the flags denote; the result is nil or a fresh error.
//   * os.Open: succeeds or fails (symbolic); os.Stdin/Stdout/Stderr and color.Output are named host files.
//   * os.Exit records the status and ends the path.

type exitPanic struct{ code Value }

type namedFile struct{ name string }

func (r *Run) cliFlag(kind, name string, mk func() Value) Value {
	k := "flag:" + kind + ":" + name
	if v, ok := r.cliVals[k]; ok {
		return v
	}
	v := mk()
	if r.cliVals == nil {
		r.cliVals = map[string]Value{}
	}
	r.cliVals[k] = v
	return v
}

func fileNameOf(v Value) string {
	i, ok := v.(Iface)
	if !ok {
		return "?"
	}
	if i.T == nil {
		return "nil"
	}
	p, ok := i.V.(Ptr)
	if !ok || p == nil {
		return "?"
	}
	if nf, ok := (*p).(*namedFile); ok {
		return nf.name
	}
	return "other"
}

func (e *Engine) registerCLIIntrinsics() {
	in := e.intrinsics
	const CLI = "github.com/urfave/cli/v2"
	const G = "github.com/ddddddO/gtree"
	flagName := func(a []Value) string { return a[1].(StrV).concrete() }
	in["(*"+CLI+".Context).Bool"] = func(r *Run, fr *frame, a []Value) Value {
		n := flagName(a)
		return r.cliFlag("bool", n, func() Value { return BoolV{C: r.branch(r.fresh("b_flag_"+sanitize(n), sortBool))} })
	}
	in["(*"+CLI+".Context).String"] = func(r *Run, fr *frame, a []Value) Value {
		n := flagName(a)
		return r.cliFlag("string", n, func() Value {
			t := r.fresh("s_flag_"+sanitize(n), sortStr)
			r.pc = append(r.pc, mkNot(mk("str.contains", sortBool, t, mkStrLit("\n"))))
			return StrV{Segs: []Seg{{Atom: t}}}
		})
	}
	in["(*"+CLI+".Context).Path"] = in["(*"+CLI+".Context).String"]
	in["(*"+CLI+".Context).Duration"] = func(r *Run, fr *frame, a []Value) Value {
		n := flagName(a)
		return r.cliFlag("duration", n, func() Value { return IntV{S: r.fresh("u_flag_"+sanitize(n), bv(64))} })
	}
	in["(*"+CLI+".Context).StringSlice"] = func(r *Run, fr *frame, a []Value) Value {
		n := flagName(a)
		return r.cliFlag("slice", n, func() Value {
			x := r.fresh("c_flagn_"+sanitize(n), bv(64))
			k := 2
			for v := 0; v < 2; v++ {
				if r.branch(mkEq(x, mkBV(uint64(v), 64))) {
					k = v
					break
				}
			}
			if k == 0 {
				return SliceV{Nil: true}
			}
			var data []Value
			for i := 0; i < k; i++ {
				t := r.fresh("s_flagv_"+sanitize(n), sortStr)
				r.pc = append(r.pc, mkNot(mk("str.contains", sortBool, t, mkStrLit("\n"))))
				data = append(data, StrV{Segs: []Seg{{Atom: t}}})
			}
			return SliceV{Data: data}
		})
	}
	in["(*"+CLI+".Context).NArg"] = func(r *Run, fr *frame, a []Value) Value {
		return r.cliFlag("narg", "", func() Value { return IntV{S: r.fresh("u_narg", bv(64))} })
	}
	// library entry points: recording stubs
	lib := func(op string, hasWriter bool) intrinsicFn {
		return func(r *Run, fr *frame, a []Value) Value {
			wname := "-"
			i := 0
			if hasWriter {
				wname = fileNameOf(a[0])
				i = 1
			}
			rname := fileNameOf(a[i])
			opts := a[i+1]
			gp := r.eng.prog.ImportedPackage(G)
			cfgp := r.callFunc(fr, gp.Func("newConfig"), []Value{opts}, nil).(Ptr)
			cfg := (*cfgp).(Struct)
			ct := gp.Type("config").Type()
			fld := func(name string) Value { return cfg[fieldIndex(ct, name)] }
			b := func(name string) string {
				v := fld(name).(BoolV)
				if v.S != nil {
					panic(unsupported("symbolic config field %s", name))
				}
				return fmt.Sprint(v.C)
			}
			rec := strLit(fmt.Sprintf("%s(w=%s,r=%s,massive=%s,encode=%d,dryrun=%s,strict=%s,ctx=%s,ext=[", op, wname, rname, b("massive"),
				int64(fld("encode").(IntV).C), b("dryrun"), b("strictVerify"), ctxKind(fld("ctx"))))
			if sl, ok := fld("fileExtensions").(SliceV); ok {
				for j, x := range sl.Data {
					if j > 0 {
						rec = concatStr(rec, strLit(","))
					}
					rec = concatStr(rec, x.(StrV))
				}
			}
			rec = concatStr(rec, strLit("],target="))
			rec = concatStr(rec, fld("targetDir").(StrV))
			rec = concatStr(rec, strLit(")\n"))
			r.cliCalls = concatStr(r.cliCalls, rec)
			// result: nil or a fresh error
			r.cliLibFailed = false
			if r.branch(r.fresh("b_libfails", sortBool)) {
				r.cliLibFailed = true
				return r.callFunc(fr, r.eng.prog.ImportedPackage("errors").Func("New"), []Value{strLit("library failure")}, nil)
			}
			return Iface{}
		}
	}
	// fmt.Print / Println / Printf write to os.Stdout; the stream takes the bytes or refuses them (solver's choice, one
	// decision per call): (n, nil) or (0, a fresh error)
	stdoutPrint := func(render func(r *Run, fr *frame, a []Value) StrV) intrinsicFn {
		return func(r *Run, fr *frame, a []Value) Value {
			s := render(r, fr, a)
			if r.branch(r.fresh("b_stdoutfails", sortBool)) {
				r.cliStdoutFailed = true
				e := r.callFunc(fr, r.eng.prog.ImportedPackage("errors").Func("New"), []Value{strLit("write /dev/stdout: refused")}, nil)
				return Tuple{IntV{C: 0}, e}
			}
			r.cliStdout = concatStr(r.cliStdout, s)
			return Tuple{r.strLen(s), Iface{}}
		}
	}
	in["fmt.Print"] = stdoutPrint(func(r *Run, fr *frame, a []Value) StrV {
		out := strLit("")
		for _, x := range a[0].(SliceV).Data {
			sv, ok := x.(Iface).V.(StrV)
			if !ok {
				panic(unsupported("fmt.Print of non-string %T", x.(Iface).V))
			}
			out = concatStr(out, sv)
		}
		return out
	})
	in["fmt.Println"] = stdoutPrint(func(r *Run, fr *frame, a []Value) StrV {
		return r.eng.intrinsics["fmt.Sprintln"](r, fr, []Value{a[0]}).(StrV)
	})
	in["fmt.Printf"] = stdoutPrint(func(r *Run, fr *frame, a []Value) StrV {
		return r.eng.intrinsics["fmt.Sprintf"](r, fr, a).(StrV)
	})
	for _, p := range harnessPkgs {
		in[p+"verifStdoutFailed"] = func(r *Run, fr *frame, a []Value) Value { return BoolV{C: r.cliStdoutFailed} }
		in[p+"verifStdout"] = func(r *Run, fr *frame, a []Value) Value { return r.cliStdout }
	}
	in[G+".OutputFromMarkdown"] = lib("output", true)
	in[G+".MkdirFromMarkdown"] = lib("mkdir", false)
	in[G+".VerifyFromMarkdown"] = lib("verify", false)
	fileT := func(r *Run) types.Type {
		return types.NewPointer(r.eng.prog.ImportedPackage("os").Type("File").Type())
	}
	in["os.Open"] = func(r *Run, fr *frame, a []Value) Value {
		if r.branch(r.fresh("b_openfails", sortBool)) {
			e := r.callFunc(fr, r.eng.prog.ImportedPackage("errors").Func("New"), []Value{strLit("open failure")}, nil)
			return Tuple{Ptr(nil), e}
		}
		slot := new(Value)
		*slot = &namedFile{name: "file"}
		return Tuple{Ptr(slot), Iface{}}
	}
	in["(*os.File).Close"] = func(r *Run, fr *frame, a []Value) Value { return Iface{} }
	in["os.Exit"] = func(r *Run, fr *frame, a []Value) Value { panic(exitPanic{a[0]}) }
	in["context.WithTimeout"] = func(r *Run, fr *frame, a []Value) Value {
		parent := a[0].(Iface).V.(*ctxObj)
		c := &ctxObj{r: r, done: &ChanV{}, tag: "timeout"}
		parent.children = append(parent.children, c)
		cancel := &hostFunc{name: "cancel", f: func(r *Run, fr *frame, a []Value) Value {
			c.cancel(*r.global(r.eng.prog.ImportedPackage("context").Var("Canceled")))
			return nil
		}}
		return Tuple{Iface{T: r.eng.prog.ImportedPackage("context").Type("Context").Type(), V: c}, cancel}
	}
	in["(*github.com/fatih/color.Color).SprintFunc"] = func(r *Run, fr *frame, a []Value) Value {
		return &hostFunc{name: "color.SprintFunc", f: func(r *Run, fr *frame, a []Value) Value {
			s := StrV{}
			for _, e := range a[0].(SliceV).Data {
				sv, ok := e.(Iface).V.(StrV)
				if !ok {
					panic(unsupported("SprintFunc of non-string"))
				}
				s = concatStr(s, sv)
			}
			return s
		}}
	}
	// (*cli.App).Run by contract: nil, or a non-ExitCoder error (ExitCoder errors never come back: the library
	// turns them into os.Exit(code) itself)
	in["(*"+CLI+".App).Run"] = func(r *Run, fr *frame, a []Value) Value {
		r.cliRunFailed = false
		if r.branch(r.fresh("b_runfails", sortBool)) {
			r.cliRunFailed = true
			return r.callFunc(fr, r.eng.prog.ImportedPackage("errors").Func("New"), []Value{strLit("usage error")}, nil)
		}
		return Iface{}
	}
	// errors.As for a pointer-to-interface target: first error of the Unwrap chain whose type implements it
	in["errors.As"] = func(r *Run, fr *frame, a []Value) Value {
		tgt := a[1].(Iface)
		pt, ok := tgt.T.Underlying().(*types.Pointer)
		if !ok {
			panic(unsupported("errors.As target %v", tgt.T))
		}
		it, ok := pt.Elem().Underlying().(*types.Interface)
		if !ok {
			panic(unsupported("errors.As with a non-interface target"))
		}
		cur := a[0].(Iface)
		for i := 0; i < 16 && cur.T != nil; i++ {
			if _, host := cur.V.(hostObj); !host && types.Implements(cur.T, it) {
				store(tgt.V.(Ptr), cur)
				return BoolV{C: true}
			}
			m := r.eng.prog.LookupMethod(cur.T, nil, "Unwrap")
			if m == nil || m.Signature.Results().Len() != 1 {
				break
			}
			nx, ok := r.callFunc(fr, m, []Value{cur.V}, nil).(Iface)
			if !ok {
				break
			}
			cur = nx
		}
		return BoolV{C: false}
	}
	for _, p := range harnessPkgs {
		in[p+"verifLibFailed"] = func(r *Run, fr *frame, a []Value) Value { return BoolV{C: r.cliLibFailed} }
		in[p+"verifRunFailed"] = func(r *Run, fr *frame, a []Value) Value { return BoolV{C: r.cliRunFailed} }
		in[p+"verifCalls"] = func(r *Run, fr *frame, a []Value) Value { return r.cliCalls }
		in[p+"verifStdFiles"] = func(r *Run, fr *frame, a []Value) Value {
			// installs named host files as os.Stdin/Stdout/Stderr and color.Output
			set := func(pkg, name, tag string) {
				g := r.eng.prog.ImportedPackage(pkg).Var(name)
				slot := new(Value)
				*slot = &namedFile{name: tag}
				var v Value = Ptr(slot)
				if pkg != "os" {
					v = Iface{T: fileT(r), V: Ptr(slot)}
				}
				*r.global(g) = v
				if r.gwritten == nil {
					r.gwritten = map[*ssa.Global]bool{}
				}
				r.gwritten[g] = true
			}
			ag := r.eng.prog.ImportedPackage("os").Var("Args")
			*r.global(ag) = SliceV{Data: []Value{strLit("gtree")}}
			if r.gwritten == nil {
				r.gwritten = map[*ssa.Global]bool{}
			}
			r.gwritten[ag] = true
			set("os", "Stdin", "stdin")
			set("os", "Stdout", "stdout")
			set("os", "Stderr", "stderr")
			set("github.com/fatih/color", "Output", "color.Output")
			return nil
		}
		// verifExitCode(f): runs f and returns the status passed to os.Exit, or -1 if f returned normally
		in[p+"verifExitCode"] = func(r *Run, fr *frame, a []Value) (res Value) {
			defer func() {
				if p := recover(); p != nil {
					if ep, ok := p.(exitPanic); ok {
						res = ep.code
						return
					}
					panic(p)
				}
			}()
			r.call(fr, a[0], nil)
			return IntV{C: ^uint64(0)}
		}
	}
}

func ctxKind(v Value) string {
	i, ok := v.(Iface)
	if !ok || i.T == nil {
		return "nil"
	}
	if c, ok := i.V.(*ctxObj); ok {
		k := "background"
		if c.tag != "" {
			k = c.tag
		}
		if c.done != nil && c.done.closed {
			// the context the library is handed is already cancelled (a cancel function that ran too early)
			k += "(cancelled)"
		}
		return k
	}
	return "other"
}

func sanitize(s string) string {
	return strings.NewReplacer("-", "_", " ", "_").Replace(s)
}
