package main

// registerCLIIntrinsics: stubs for the C16 harnesses (package main): urfave/cli context getters, gtree entry points, os.Open.
func (e *Engine) registerCLIIntrinsics() {}
