package main

// The registered checks: one entry per property, jobs per tier. Bounds listed here are the ones that ran clean
// (0 inconclusive, 0 unsupported) on the unchanged tree.

var commonAssume = []string{
	"bufio.Scanner line splitting (ScanLines: split at \\n, one trailing \\r dropped, ErrTooLong over 64 KiB) is trusted, not executed; item texts do not end in \\r",
	"fmt.Fprint/Sprintf modelled as concatenation + one Write on the destination",
	"no memory model (data races are outside every claim)",
}

const parseContract = "Parser.Parse replaced by its contract at tree level (item row -> depth+1,text; blank -> ErrBlankLine; no bullet / bad indentation -> ErrIncorrectFormat; empty text -> ErrEmptyText); the contract is itself discharged at byte level on the real parser by the L-parse jobs of C15"

func gj(name, entry string, n int, expect ...string) Job {
	return Job{Name: name, Pkg: "gtree", Entry: entry, N: n, Expect: expect}
}

func allChecks() []*Check {
	return []*Check{
		{
			ID:    "C01",
			Files: []string{"gtree/common.go", "gtree/c01.go"},
			Quick: []Job{
				gj("C01.tree.n6", "VerifC01", 6, "C01.nil", "C01.out", "C01.end"),
				gj("C01.blank.n3", "VerifC01Blank", 3, "C01.blank.nil", "C01.blank.out", "C01.blank.end"),
			},
			Thorough: []Job{
				gj("C01.tree.n8", "VerifC01", 8, "C01.nil", "C01.out", "C01.end"),
				gj("C01.blank.n4", "VerifC01Blank", 4, "C01.blank.nil", "C01.blank.out", "C01.blank.end"),
			},
			Bounds: "forests of N item rows (quick N=6, thorough N=8): every well-formed depth sequence x every pattern of equal sibling names; names and the four branch strings are unconstrained strings of any length; both simple output routes; up to 2 blank rows at any position for N=3/4. Outside: larger N, massive mode (C10), spellings other than the canonical one (L-parse, C15).",
			Assume: append([]string{parseContract}, commonAssume...),
		},
		{
			ID:    "C02",
			Files: []string{"gtree/common.go", "gtree/c02.go"},
			Quick: []Job{
				gj("C02.n5", "VerifC02", 5, "C02.iff/ok", "C02.iff/jump", "C02.iff/noroot", "C02.iff/nobullet", "C02.iff/emptytext", "C02.row/jump", "C02.row/nobullet", "C02.complete/output", "C02.complete/walk"),
			},
			Thorough: []Job{
				gj("C02.n7", "VerifC02", 7, "C02.iff/ok", "C02.iff/jump", "C02.iff/noroot", "C02.iff/nobullet", "C02.iff/emptytext", "C02.row/jump", "C02.row/nobullet", "C02.complete/output", "C02.complete/walk"),
			},
			Bounds: "documents of N rows (quick 5, thorough 7): item depths in [0, prev+2] (the first indented row of a document defines the unit, so its depth is 1), at most one row of class no-bullet/empty-text at any position and depth; routes: iterator output, non-iterator output, walk (generate() shared with mkdir/verify). After the first offending row one more row is generated. Outside: several malformed rows, jumps by more than 2 (same code path), massive mode (C10).",
			Assume: append([]string{parseContract}, commonAssume...),
		},
	}
}
