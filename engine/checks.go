package main

// The registered checks: one entry per property, jobs per tier. Bounds listed here are the ones that ran clean
// (0 inconclusive, 0 unsupported) on the unchanged tree.

var commonAssume = []string{
	"bufio.Scanner line splitting (ScanLines: split at \\n, one trailing \\r dropped, ErrTooLong over 64 KiB) is trusted, not executed",
	"fmt.Fprint/Sprintf modelled as concatenation + one Write on the destination",
	"goroutine-free code paths only unless stated; no memory model",
}

func allChecks() []*Check {
	return []*Check{
		{
			ID:    "C01",
			Files: []string{"gtree/common.go", "gtree/c01.go"},
			Quick: []Job{
				{Name: "C01.tree.n5", Pkg: "gtree", Entry: "VerifC01", N: 5, Expect: []string{"C01.nil", "C01.out", "C01.end"}},
				{Name: "C01.blank.n3", Pkg: "gtree", Entry: "VerifC01Blank", N: 3, Expect: []string{"C01.blank.nil", "C01.blank.out", "C01.blank.end"}},
			},
			Thorough: []Job{
				{Name: "C01.tree.n7", Pkg: "gtree", Entry: "VerifC01", N: 7, Expect: []string{"C01.nil", "C01.out", "C01.end"}},
				{Name: "C01.blank.n4", Pkg: "gtree", Entry: "VerifC01Blank", N: 4, Expect: []string{"C01.blank.nil", "C01.blank.out", "C01.blank.end"}},
			},
			Bounds: "forests of N item rows (quick N=5, thorough N=7): every well-formed depth sequence x every pattern of equal sibling names; names and the four branch strings are unconstrained strings of any length; both simple output routes; up to 2 blank rows at any position for N<=3/4. Outside: larger N, massive mode (C10), spellings other than the canonical one (L-parse, C15).",
			Assume: append([]string{"Parser.Parse replaced by its contract at tree level (row -> depth+1,text); the contract is itself checked at byte level by the L-parse jobs of C15"}, commonAssume...),
		},
	}
}
