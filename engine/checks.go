package main

// The registered checks: one entry per property, jobs per tier. Bounds listed here are the ones that ran clean
// (0 inconclusive, 0 unsupported) on the unchanged tree.

var commonAssume = []string{
	"bufio.Scanner line splitting replaced by its contract at tree level (ScanLines: split at \\n, one trailing \\r dropped; ErrTooLong over 64 KiB); the contract is itself discharged on the real bufio.Scanner at byte level by the L-scan jobs of C15; item texts do not end in \\r",
	"fmt.Fprint/Sprintf modelled as concatenation + one Write on the destination",
	"sequentially consistent execution of one goroutine at a time; data races are decided only where a job says 'race' (happens-before detector, C11/C13)",
	"opaque strings (names, branch strings, extensions, rows) are shorter than 2^30 bytes",
}

const parseContract = "Parser.Parse replaced by its contract at tree level (item row -> depth+1,text; blank -> ErrBlankLine; no bullet / bad indentation -> ErrIncorrectFormat; empty text -> ErrEmptyText); the contract is itself discharged at byte level on the real parser by the L-parse jobs of C15"

func gj(name, entry string, n int, expect ...string) Job {
	return Job{Name: name, Pkg: "gtree", Entry: entry, N: n, Expect: expect}
}

// gjf: tree-level job with the file-system model and the element-level path contracts (path.Join, fs.ValidPath).
func gjf(name, entry string, n int, expect ...string) Job {
	return Job{Name: name, Pkg: "gtree", Entry: entry, N: n, Expect: expect, FSModel: true}
}

const pathContract = "path.Join / filepath.Join / fs.ValidPath / strings.HasSuffix,TrimSuffix,ContainsAny on opaque names replaced by element-level contracts (names are single valid path elements: non-empty, no '/', not '.' or '..', no NUL); the contracts are discharged on the real std code at byte level by the L-path job of C07"
const fsModel = "os.Stat/MkdirAll/Create and os.DirFS+fs.WalkDir answered by a file-system model written in Go in the harness (harness/gtree/vfs_sym.go) and executed symbolically; the model's reading of the OS is trusted and exercised against the real OS by the witness replays (harness/gtree/vfs_native.go)"
const encStub = "encoding/json, yaml.v3, go-toml encoders are stubs that render the {value, children} record they are given in one Write; quoting/escaping of names by those libraries is outside the claim (exercised by the native replays, which decode the real bytes with the real decoders)"

var (
	filesProg = []string{"gtree/common.go", "gtree/progtree.go", "gtree/encode.go", "gtree/encode_sym.go", "gtree/encode_native.go"}
	filesVFS  = []string{"gtree/vfs_sym.go", "gtree/vfs_native.go"}
)

func files(groups ...[]string) []string {
	var out []string
	for _, g := range groups {
		out = append(out, g...)
	}
	return out
}

func allChecks() []*Check {
	cs := allChecksRaw()
	for _, c := range cs {
		confirm := map[string]string{"C10": "VerifC10Stress", "C11": "VerifC11Stress", "C13": "VerifC13Stress"}[c.ID]
		if confirm != "" {
			for i := range c.Quick {
				c.Quick[i].Confirm = confirm
			}
			for i := range c.Thorough {
				c.Thorough[i].Confirm = confirm
			}
		}
		if c.ID == "C11" {
			// the data-race clause: every C11 job runs with the happens-before detector (race.go)
			for i := range c.Quick {
				c.Quick[i].Race = true
			}
			for i := range c.Thorough {
				c.Thorough[i].Race = true
			}
		}
	}
	return cs
}

func allChecksRaw() []*Check {
	return []*Check{
		{
			ID:    "C01",
			Files: []string{"gtree/common.go", "gtree/c01.go", "gtree/wide.go"},
			Quick: []Job{
				{Name: "C01.wide", Pkg: "gtree", Entry: "VerifWide", N: 0, RealParse: true, Expect: []string{"Wide.add.same", "Wide.md.text/iter", "Wide.md.text/noiter", "Wide.prog.text", "Wide.prog.walk", "Wide.end"}},
				{Name: "C01.manyroots", Pkg: "gtree", Entry: "VerifManyRoots", N: 0, RealParse: true, Expect: []string{"ManyRoots.text/iter", "ManyRoots.text/noiter", "ManyRoots.walk", "ManyRoots.end"}},
				gj("C01.tree.n6", "VerifC01", 6, "C01.nil", "C01.out", "C01.end"),
				gj("C01.blank.n3", "VerifC01Blank", 3, "C01.blank.nil", "C01.blank.out", "C01.blank.end"),
				gj("C01.bytes.n4", "VerifC01Bytes", 4, "C01.bytes.nil", "C01.bytes.out", "C01.bytes.end"),
			},
			Thorough: []Job{
				gj("C01.tree.n8", "VerifC01", 8, "C01.nil", "C01.out", "C01.end"),
				gj("C01.blank.n4", "VerifC01Blank", 4, "C01.blank.nil", "C01.blank.out", "C01.blank.end"),
				gj("C01.bytes.n5", "VerifC01Bytes", 5, "C01.bytes.nil", "C01.bytes.out", "C01.bytes.end"),
			},
			Bounds: "forests of N item rows (quick N=6, thorough N=8): every well-formed depth sequence x every pattern of equal sibling names; names and the four branch strings are unconstrained strings of any length; both simple output routes; up to 2 blank rows at any position for N=3/4; byte level: forests of 4/5 rows with concrete names and the four branch strings as 0..2 arbitrary ASCII bytes each (strings of different lengths, code that measures or slices them). Outside: larger N, massive mode (C10), spellings other than the canonical one (L-parse, C15). Wide node (real parser): a root with 15..18 concrete children, one more row repeating a solver-chosen child's name or a new one, a grandchild below it, optionally a last new child; from Markdown (both routes) and programmatically (Add returns the existing node; text; walk count). Many roots: 15..18 root blocks of two or three rows and a last block whose root name may repeat an earlier one (roots are never merged); text both routes, callback walk.",
			Assume: append([]string{parseContract}, commonAssume...),
		},
		{
			ID:    "C02",
			Files: []string{"gtree/common.go", "gtree/c02.go", "markdown/lparse.go"},
			Quick: []Job{
				gj("C02.n5", "VerifC02", 5, "C02.iff/ok", "C02.iff/jump", "C02.iff/noroot", "C02.iff/nobullet", "C02.iff/emptytext", "C02.row/jump", "C02.row/nobullet", "C02.complete/output", "C02.complete/walk"),
				{Name: "C02.LMalformed.1", Pkg: "markdown", Entry: "VerifLMalformed", N: 1, RealParse: true, Expect: []string{"LM.nobullet", "LM.emptytext", "LM.badindent", "LM.mixed", "LM.otherchar", "LM.blank"}},
				{Name: "C02.LParse.2", Pkg: "markdown", Entry: "VerifLParse", N: 2, RealParse: true, Expect: []string{"LP.accept", "LP.hierarchy", "LP.text", "LP.next", "LP.end"}},
			},
			Thorough: []Job{
				gj("C02.n7", "VerifC02", 7, "C02.iff/ok", "C02.iff/jump", "C02.iff/noroot", "C02.iff/nobullet", "C02.iff/emptytext", "C02.row/jump", "C02.row/nobullet", "C02.complete/output", "C02.complete/walk"),
				{Name: "C02.LMalformed.2", Pkg: "markdown", Entry: "VerifLMalformed", N: 2, RealParse: true, Expect: []string{"LM.nobullet", "LM.emptytext", "LM.badindent", "LM.mixed", "LM.otherchar", "LM.blank"}},
				{Name: "C02.LParse.2", Pkg: "markdown", Entry: "VerifLParse", N: 2, RealParse: true, Expect: []string{"LP.accept", "LP.hierarchy", "LP.text", "LP.next", "LP.end"}},
				{Name: "C02.LAny.3", Pkg: "markdown", Entry: "VerifLAny", N: 3, RealParse: true, Expect: []string{"LA.oneof", "LA.hierarchy", "LA.text", "LA.errclass"}},
			},
			Bounds: "documents of N rows (quick 5, thorough 7): item depths in [0, prev+2] (the first indented row of a document defines the unit, so its depth is 1), at most one row of class no-bullet/empty-text at any position and depth; routes: iterator output, non-iterator output, walk (generate() shared with mkdir/verify). After the first offending row one more row is generated. Byte level: the malformation classes and the acceptance half of the Parse contract on the real parser (L-malformed and L-parse lemmas, shared with C15: every well-formed row spelling -- any bullet, indentation unit, text bytes -- is accepted with the right depth and text). Outside: several malformed rows, jumps by more than 2 (same code path), massive mode (C10).",
			Assume: append([]string{parseContract}, commonAssume...),
		},
		{
			ID:    "C03",
			Files: files(filesProg, filesVFS, []string{"gtree/c03.go", "gtree/wide.go"}),
			Quick: []Job{
				{Name: "C03.wide", Pkg: "gtree", Entry: "VerifWide", N: 0, RealParse: true, Expect: []string{"Wide.add.same", "Wide.md.text/iter", "Wide.md.text/noiter", "Wide.prog.text", "Wide.prog.walk", "Wide.end"}},
				gjf("C03.pairs.n5", "VerifC03", 5, "C03.add", "C03.text", "C03.text.ref", "C03.enc", "C03.walk", "C03.iter", "C03.alias.output", "C03.alias.walk", "C03.alias.iter"),
				gjf("C03.pairs2.n4", "VerifC03", 14, "C03.add", "C03.fail.samewrites", "C03.fail.err", "C03.fail.out", "C03.dryrun.nil", "C03.dryrun"),
				gjf("C03.reject.n3", "VerifC03Reject", 3, "C03.reject.err", "C03.reject.nowrite", "C03.reject.nocallback", "C03.reject.nofs"),
				gjf("C03.bytes.n5", "VerifC03Bytes", 5, "C03.bytes.nil", "C03.bytes.text", "C03.bytes.ref"),
			},
			Thorough: []Job{
				gjf("C03.bytes.n6", "VerifC03Bytes", 6, "C03.bytes.nil", "C03.bytes.text", "C03.bytes.ref"),
				gjf("C03.pairs.n6", "VerifC03", 6, "C03.add", "C03.text", "C03.text.ref", "C03.enc", "C03.walk", "C03.iter", "C03.alias.output", "C03.alias.walk", "C03.alias.iter"),
				gjf("C03.pairs2.n5", "VerifC03", 15, "C03.add", "C03.fail.samewrites", "C03.fail.err", "C03.fail.out", "C03.dryrun.nil", "C03.dryrun"),
				gjf("C03.reject.n4", "VerifC03Reject", 4, "C03.reject.err", "C03.reject.nowrite", "C03.reject.nocallback", "C03.reject.nofs"),
			},
			Bounds: "programs of NewRoot + (N-1) Add calls (quick N=5, thorough N=6; N=7 ran clean once in 17 min) on solver-chosen parents with names that may coincide, optionally with a From-Root call between two Adds; operation pairs From-Root vs From-Markdown: text with 4 opaque branch strings, JSON/YAML/TOML records, callback walk facts, iterator walk (walks with 4 opaque branch strings as options); a writer that refuses write j and the dry-run report with 0..1 opaque extension (second job, N = 4 / 5); every deprecated alias next to its replacement; nil / non-root arguments on all 10 From-Root entry points. Byte level: programs of 5/6 nodes with concrete names and the four branch strings as 0..2 arbitrary ASCII bytes each (code that looks into the branch strings). mkdir/verify pairs are decided under C06/C08 (VerifC06Root, VerifC08 both families). Outside: names that are not single path elements (C07), massive mode (C10). Wide node: as C01's job (15..18 children, repeated name), programmatic and Markdown side.",
			Assume: append([]string{parseContract, pathContract, fsModel, encStub}, commonAssume...),
		},
		{
			ID:              "C04",
			Files:           files(filesProg, []string{"gtree/c04.go", "gtree/c04_native.go"}),
			NativeContracts: []string{"VerifC04Hostile"},
			Quick: []Job{
				gj("C04.md.n5", "VerifC04", 5, "C04.nil", "C04.iso", "C04.order.count"),
				gj("C04.root.n5", "VerifC04Root", 5, "C04.root.nil", "C04.root.iso"),
			},
			Thorough: []Job{
				gj("C04.md.n7", "VerifC04", 7, "C04.nil", "C04.iso", "C04.order.count"),
				gj("C04.root.n7", "VerifC04Root", 7, "C04.root.nil", "C04.root.iso"),
			},
			Bounds: "forests of N rows / programs of N nodes (quick 5, thorough 7), opaque names, equal sibling names merged; JSON, YAML, TOML (TOML single root); both simple routes and From-Root: the record handed to each Encode call is isomorphic to the reference forest (names, child order, nesting; nil and empty children equivalent), one Encode per root in input order. Outside the solver's claim: the bytes produced by the three encoder libraries (quoting of hostile names); they are only exercised, on the solver's models, by the native replays with a decode-and-compare oracle.",
			Assume: append([]string{parseContract, encStub}, commonAssume...),
		},
		{
			ID:    "C05",
			Files: files(filesProg, []string{"gtree/c05.go", "gtree/wide.go"}),
			Quick: []Job{
				{Name: "C05.deep", Pkg: "gtree", Entry: "VerifDeep", N: 0, RealParse: true, Expect: []string{"Deep.text", "Deep.walk.md", "Deep.walk.iter", "Deep.walk.root", "Deep.end"}},
				gjf("C05.walk.n5", "VerifC05", 5, "C05.name", "C05.branch", "C05.row", "C05.level", "C05.path", "C05.haschild", "C05.stop.err", "C05.stop.count", "C05.stop.nomore", "C05.all", "C05.nil"),
				gjf("C05.iter.n5", "VerifC05Iter", 5, "C05.iter.row", "C05.iter.path", "C05.iter.level", "C05.iter.nomore", "C05.iter.stop.count", "C05.iter.stop.err", "C05.iter.all"),
			},
			Thorough: []Job{
				{Name: "C05.deep", Pkg: "gtree", Entry: "VerifDeep", N: 1, RealParse: true, Expect: []string{"Deep.text", "Deep.walk.md", "Deep.walk.iter", "Deep.walk.root", "Deep.end"}},
				gjf("C05.walk.n7", "VerifC05", 7, "C05.name", "C05.branch", "C05.row", "C05.level", "C05.path", "C05.haschild", "C05.stop.err", "C05.stop.count", "C05.stop.nomore", "C05.all", "C05.nil"),
				gjf("C05.iter.n7", "VerifC05Iter", 7, "C05.iter.row", "C05.iter.path", "C05.iter.level", "C05.iter.nomore", "C05.iter.stop.count", "C05.iter.stop.err", "C05.iter.all"),
			},
			Bounds: "forests of N rows (callback form from Markdown, 4 opaque branch strings) and programs of N nodes (From-Root callback, iterator and deprecated iterator forms), quick N=5, thorough N=7; callback failing / consumer breaking out at every visit index (symbolic) or never. Outside: massive mode (C10), names that are not single path elements. Deep trees (real parser): a chain of 32..35 (thorough 30..70) levels below the root plus one child at the top, middle or bottom; text, callback walk from Markdown and From-Root, iterator walk.",
			Assume: append([]string{parseContract, pathContract}, commonAssume...),
		},
		{
			ID:    "C13",
			Files: files(filesProg, filesVFS, []string{"gtree/c13.go", "gtree/c13c.go", "gtree/c13c_native.go", "gtree/wide.go"}),
			Quick: []Job{
				{Name: "C13.wide", Pkg: "gtree", Entry: "VerifWide", N: 0, RealParse: true, Expect: []string{"Wide.add.same", "Wide.md.text/iter", "Wide.md.text/noiter", "Wide.prog.text", "Wide.prog.walk", "Wide.end"}},
				gjf("C13.hist.n4", "VerifC13", 4, "C13.add", "C13.fn", "C13.idem", "C13.md", "C13.md.fails", "C13.nil", "C13.end"),
				gjf("C13.hist.n3.dryrun", "VerifC13", 103, "C13.add", "C13.fresh", "C13.idem", "C13.end"),
				gjf("C13.hist.n3.massivejson", "VerifC13", 203, "C13.add", "C13.fn", "C13.fresh", "C13.idem", "C13.nil", "C13.end"),
				gjf("C13.hist.n2.emptynames", "VerifC13", 12, "C13.add", "C13.fn", "C13.idem", "C13.end"),
				{Name: "C13.conc.wyield", Pkg: "gtree", Entry: "VerifC13Conc", RealParse: true, RealScan: true, Race: true, RaceConfirm: "VerifC13Stress", Sched: "fifo-wyield", Expect: []string{"C13.conc.same", "C13.conc.noleak", "C13.conc.end"}},
				{Name: "C13.md.n2", Pkg: "gtree", Entry: "VerifC13Md", N: 2, RealParse: true, Expect: []string{"C13.md.nil", "C13.md.same", "C13.md.noleak", "C13.md.end"}},
			},
			Thorough: []Job{
				{Name: "C13.conc.wyield", Pkg: "gtree", Entry: "VerifC13Conc", RealParse: true, RealScan: true, Race: true, RaceConfirm: "VerifC13Stress", Sched: "fifo-wyield", Expect: []string{"C13.conc.same", "C13.conc.noleak", "C13.conc.end"}},
				{Name: "C13.conc.lifo-wyield", Pkg: "gtree", Entry: "VerifC13Conc", RealParse: true, RealScan: true, Race: true, RaceConfirm: "VerifC13Stress", Sched: "lifo-wyield", Expect: []string{"C13.conc.same", "C13.conc.noleak", "C13.conc.end"}},
				{Name: "C13.md.n3", Pkg: "gtree", Entry: "VerifC13Md", N: 3, RealParse: true, Expect: []string{"C13.md.nil", "C13.md.same", "C13.md.noleak", "C13.md.end"}},
				{Name: "C13.md.n2.lifo", Pkg: "gtree", Entry: "VerifC13Md", N: 2, RealParse: true, Sched: "lifo", Expect: []string{"C13.md.nil", "C13.md.same", "C13.md.noleak", "C13.md.end"}},
				{Name: "C13.conc.rnd8", Pkg: "gtree", Entry: "VerifC13Conc", RealParse: true, RealScan: true, Race: true, RaceConfirm: "VerifC13Stress", Sched: "rnd8", Expect: []string{"C13.conc.same", "C13.conc.noleak", "C13.conc.end"}},
				gjf("C13.hist.n5", "VerifC13", 5, "C13.add", "C13.fn", "C13.idem", "C13.md", "C13.nil", "C13.end"),
				gjf("C13.hist.n4", "VerifC13", 4, "C13.add", "C13.fn", "C13.idem", "C13.md", "C13.md.fails", "C13.nil", "C13.end"),
				gjf("C13.hist.n4.dryrun", "VerifC13", 104, "C13.add", "C13.fresh", "C13.idem", "C13.end"),
				gjf("C13.hist.n4.massivejson", "VerifC13", 204, "C13.add", "C13.fn", "C13.fresh", "C13.idem", "C13.nil", "C13.end"),
				gjf("C13.hist.n4.emptynames", "VerifC13", 14, "C13.add", "C13.fn", "C13.idem", "C13.end"),
			},
			Bounds: "sequential histories of N steps (quick 4, thorough 5) plus a final operation on every live tree, over at most two live trees: Add on any node of any tree, creation of the second tree, an unrelated From-Markdown call, a From-Root operation (one kind per history: text, callback walk, iterator walk on an iterator made when the tree was made, JSON; in a job of their own the dry-run report and the dry run combined with an encode option) executed twice in a row, a text output in between whatever the history's kind is; every result also equals the result on a freshly built copy of the tree (C13.fresh); names are opaque single path elements, in a second job each name may also be the empty string (NewRoot(\"\")/Add(\"\") are legal). Concurrent use (VerifC13Conc): two goroutines run one library call each at the same time on inputs of their own -- 8 kinds each (From-Markdown text on both simple routes, walk, massive text, dry-run; From-Root text, custom-branch text and walk, each building its tree first), one arbitrary name byte each; real bufio.Scanner / strings.Reader / parser, a model of sync.Pool; write-yield schedules (and LIFO, 8 pseudo-random ones in the thorough tier): each result equals the call's result when run alone, and the happens-before detector finds no pair of unsynchronised conflicting accesses in library code (which does not depend on the schedule explored). Sequential From-Markdown histories (VerifC13Md): 2 (quick) / 3 (thorough) massive-mode calls one after the other, each on a document in a notation of its own (tabs / one blank / two blanks, list or # roots, bullet symbols): nil and the simple mode's blocks every time (pooled or otherwise kept pipeline state must not show). Outside: more than two concurrent calls, mkdir/verify as concurrent or history steps, longer histories. A history step may be a From-Markdown output into a refusing writer (histories of up to 4 steps); jobs of their own: dry-run kinds, JSON through the massive pipeline (3 / 4 steps); the wide-node job of C01.",
			Assume: append([]string{parseContract, pathContract, encStub}, commonAssume...),
		},
		{
			ID:    "C14",
			Files: files(filesProg, filesVFS, []string{"gtree/c14.go"}),
			Quick: []Job{
				gjf("C14.reader.n4", "VerifC14Reader", 4, "C14.reader.nonnil", "C14.reader.is", "C14.reader.nonnil/massive", "C14.reader.is/massive"),
				{Name: "C14.reader.n3.lifo", Pkg: "gtree", Entry: "VerifC14Reader", N: 3, FSModel: true, Sched: "lifo", Expect: []string{"C14.reader.nonnil/massive", "C14.reader.is/massive"}},
				gjf("C14.writer.n4", "VerifC14Writer", 4, "C14.writer.reported/text", "C14.writer.reported/encode", "C14.writer.reported/dryrun", "C14.writer.complete/text", "C14.writer.complete/encode", "C14.writer.nospurious/dryrun", "C14.writer.reported/massive", "C14.writer.nospurious/massive"),
				gjf("C14.rootwriter.n4", "VerifC14WriterRoot", 4, "C14.rootwriter.reported/text", "C14.rootwriter.reported/encode", "C14.rootwriter.reported/dryrun", "C14.rootwriter.complete/text"),
			},
			Thorough: []Job{
				gjf("C14.reader.n5", "VerifC14Reader", 5, "C14.reader.nonnil", "C14.reader.is", "C14.reader.nonnil/massive", "C14.reader.is/massive"),
				{Name: "C14.reader.n4.lifo", Pkg: "gtree", Entry: "VerifC14Reader", N: 4, FSModel: true, Sched: "lifo", Expect: []string{"C14.reader.nonnil/massive", "C14.reader.is/massive"}},
				{Name: "C14.reader.n4.rnd8", Pkg: "gtree", Entry: "VerifC14Reader", N: 4, FSModel: true, Sched: "rnd8", Expect: []string{"C14.reader.nonnil/massive", "C14.reader.is/massive"}},
				gjf("C14.writer.n6", "VerifC14Writer", 6, "C14.writer.reported/text", "C14.writer.reported/encode", "C14.writer.reported/dryrun", "C14.writer.complete/text", "C14.writer.complete/encode", "C14.writer.nospurious/dryrun", "C14.writer.reported/massive", "C14.writer.nospurious/massive"),
				gjf("C14.rootwriter.n6", "VerifC14WriterRoot", 6, "C14.rootwriter.reported/text", "C14.rootwriter.reported/encode", "C14.rootwriter.reported/dryrun", "C14.rootwriter.complete/text"),
			},
			Bounds: "well-formed forests of N rows / programs of N nodes (quick 4, thorough 6; the reader job 5: at 6 rows a handful of its 78 000 paths end with branch-feasibility queries the solver does not decide in time, i.e. undecided, with the failure value now four-valued). Reader: fails with a solver-chosen error value (fresh, context.Canceled, context.DeadlineExceeded, one that wraps io.EOF) after k delivered rows, k symbolic in 0..N, routes iterator/non-iterator text, JSON, YAML, dry-run, walk, and massive-mode text, JSON, walk, mkdir and verify (FIFO; LIFO and 8 pseudo-random schedules in further jobs), k = 0 included (the failure precedes every hand-over). Writer: refuses write number j, j symbolic in 0..N (N = past the last write: never), modes text (both routes), JSON, YAML, TOML (single root), dry-run report, massive text / JSON / dry-run (FIFO policy), From-Root text (fused printer), From-Root JSON, MkdirFromRoot dry-run report on color.Output. Short writes that return a nil error violate io.Writer's contract and are not modelled. More of massive mode: C11.",
			Assume: append([]string{parseContract, pathContract, encStub, "fatih/color under NoColor (Sprint is concatenation); bufio.Writer modelled as buffer + one Write at Flush", "reader-failure jobs: the reader's failure is the only failure of the call (massive mkdir: distinct root names; massive verify: every node present)"}, commonAssume...),
		},
		{
			ID:    "C12",
			Files: files([]string{"gtree/common.go"}, filesVFS, []string{"gtree/c12.go"}),
			Quick: []Job{
				{Name: "C12.empty", Pkg: "gtree", Entry: "VerifC12Empty", N: 0, FSModel: true, Expect: []string{"C12.empty.nil", "C12.empty.nothing", "C12.empty.end"}},
				{Name: "C12.rows.1x3", Pkg: "gtree", Entry: "VerifC12Rows", N: 13, FSModel: true, RealParse: true, Expect: []string{"C12.returned", "C12.empty.nil", "C12.accepted.nonempty"}},
				{Name: "C12.rows.2x1", Pkg: "gtree", Entry: "VerifC12Rows", N: 21, FSModel: true, RealParse: true, Expect: []string{"C12.returned", "C12.empty.nil"}},
				{Name: "C12.rows.1x2.allbytes", Pkg: "gtree", Entry: "VerifC12Rows", N: 112, FSModel: true, RealParse: true, Expect: []string{"C12.returned", "C12.empty.nil"}},
				{Name: "C12.longrows", Pkg: "gtree", Entry: "VerifC12Rows", N: 1000, FSModel: true, RealParse: true, Expect: []string{"C12.returned"}},
				{Name: "C12.long", Pkg: "gtree", Entry: "VerifC12Long", N: 0, FSModel: true, RealParse: true, RealScan: true, Expect: []string{"C12.long.returned", "C12.long.reported", "C12.long.fits.nil", "C12.long.fits.rendered", "C12.long.noleak"}},
			},
			Thorough: []Job{
				{Name: "C12.empty", Pkg: "gtree", Entry: "VerifC12Empty", N: 0, FSModel: true, Expect: []string{"C12.empty.nil", "C12.empty.nothing", "C12.empty.end"}},
				{Name: "C12.rows.1x4", Pkg: "gtree", Entry: "VerifC12Rows", N: 14, FSModel: true, RealParse: true, Expect: []string{"C12.returned", "C12.empty.nil", "C12.accepted.nonempty"}},
				{Name: "C12.rows.2x2", Pkg: "gtree", Entry: "VerifC12Rows", N: 22, FSModel: true, RealParse: true, Expect: []string{"C12.returned", "C12.empty.nil", "C12.accepted.nonempty"}},
				{Name: "C12.long", Pkg: "gtree", Entry: "VerifC12Long", N: 0, FSModel: true, RealParse: true, RealScan: true, Expect: []string{"C12.long.returned", "C12.long.reported", "C12.long.fits.nil", "C12.long.fits.rendered", "C12.long.noleak"}},
				{Name: "C12.rows.1x2.allbytes", Pkg: "gtree", Entry: "VerifC12Rows", N: 112, FSModel: true, RealParse: true, Expect: []string{"C12.returned", "C12.empty.nil"}},
			},
			Bounds: "byte level, real parser: documents of 1 row of 0..3 (quick) / 0..4 (thorough) arbitrary ASCII bytes, 2 rows of 0..1 (quick) / 0..2 (thorough) bytes, 1 row of 0..2 bytes over all 256 values (no \\n: the scanner never delivers one), through 8 sequential entry points (text both routes, JSON, YAML, dry-run, walk, mkdir and verify on the file-system model, the last two also with the target directory being a regular file) and 2 massive-mode ones (text, walk; FIFO policy); plus, at tree level, the empty document and 1..3 blank rows on 11 entry points (2 of them massive). A panic or an exceeded step budget (3e6 SSA instructions) on any feasible path is a violation; this is also built into every harness of every other property. Long rows: a notation prefix (none, root bullet, indented bullets, heading, tab) + 30 or 100 units of one kind (ASCII, 2-byte, 3-byte characters, invalid bytes, a mixture, blanks) + one arbitrary byte, alone or after a root and child, on the same 10 entry points (byte length and rune count far apart, lengths beyond small fixed limits). Outside: longer rows / more rows with every byte arbitrary (the DESIGN's 3x5 bound is out of reach: 2 rows x 3 bytes did not finish in 30 min), over-long lines other than the boundary case (real bufio.Scanner: a root row of 65535 bytes plus newline is rendered completely, one byte more is an error, on 3 simple routes and massive text), other massive-mode documents (C10/C11).",
			Assume: append([]string{fsModel, "real std strings/path/filepath/io/fs code executed on symbolic bytes (leaf intrinsics: bytealg.IndexByteString, CountString, MakeNoZero)"}, commonAssume...),
		},
		{
			ID:    "C15",
			Files: []string{"markdown/lparse.go", "gtree/common.go", "gtree/c15.go", "gtree/lscan.go"},
			Quick: []Job{
				{Name: "C15.LParse.2", Pkg: "markdown", Entry: "VerifLParse", N: 2, RealParse: true, Expect: []string{"LP.accept", "LP.hierarchy", "LP.text", "LP.next", "LP.end"}},
				{Name: "C15.LHeading.2", Pkg: "markdown", Entry: "VerifLHeading", N: 2, RealParse: true, Expect: []string{"LH.accept", "LH.root", "LH.text", "LH.next"}},
				{Name: "C15.LMalformed.1", Pkg: "markdown", Entry: "VerifLMalformed", N: 1, RealParse: true, Expect: []string{"LM.nobullet", "LM.emptytext", "LM.badindent", "LM.mixed", "LM.otherchar", "LM.blank"}},
				{Name: "C15.LAny.3", Pkg: "markdown", Entry: "VerifLAny", N: 3, RealParse: true, Expect: []string{"LA.oneof", "LA.hierarchy", "LA.text", "LA.errclass"}},
				{Name: "C15.same.3", Pkg: "gtree", Entry: "VerifC15Same", N: 3, RealParse: true, Expect: []string{"C15.canon.nil", "C15.spelling.nil", "C15.same"}},
				{Name: "C15.same.sym2", Pkg: "gtree", Entry: "VerifC15Same", N: 102, RealParse: true, Expect: []string{"C15.canon.nil", "C15.spelling.nil", "C15.same"}},
				{Name: "C15.same.blankkinds2", Pkg: "gtree", Entry: "VerifC15Same", N: 22, RealParse: true, Expect: []string{"C15.canon.nil", "C15.spelling.nil", "C15.same"}},
				{Name: "C15.same.massive.blankkinds2", Pkg: "gtree", Entry: "VerifC15Same", N: 1022, RealParse: true, Expect: []string{"C15.canon.nil", "C15.spelling.nil/massive", "C15.same/massive", "C15.noleak"}},
				{Name: "C15.LScan.5", Pkg: "gtree", Entry: "VerifLScan", N: 5, RealParse: true, RealScan: true, Expect: []string{"LS.err", "LS.lines", "LS.end"}},
				{Name: "C15.lines.3", Pkg: "gtree", Entry: "VerifC15Lines", N: 3, RealParse: true, RealScan: true, Expect: []string{"C15.lines.nil/text", "C15.lines.same/text", "C15.lines.same/noiter", "C15.lines.same/json", "C15.lines.same/dryrun", "C15.lines.end"}},
				{Name: "C15.lines.massive3", Pkg: "gtree", Entry: "VerifC15Lines", N: 13, RealParse: true, RealScan: true, Expect: []string{"C15.lines.nil/massive", "C15.lines.same/massive", "C15.lines.noleak", "C15.lines.end"}},
			},
			Thorough: []Job{
				{Name: "C15.same.massive.blank3", Pkg: "gtree", Entry: "VerifC15Same", N: 1013, RealParse: true, Expect: []string{"C15.canon.nil", "C15.spelling.nil/massive", "C15.same/massive", "C15.noleak"}},
				{Name: "C15.same.massive.blank4", Pkg: "gtree", Entry: "VerifC15Same", N: 1014, RealParse: true, Expect: []string{"C15.canon.nil", "C15.spelling.nil/massive", "C15.same/massive", "C15.noleak"}},
				{Name: "C15.LScan.7", Pkg: "gtree", Entry: "VerifLScan", N: 7, RealParse: true, RealScan: true, Expect: []string{"LS.err", "LS.lines", "LS.end"}},
				{Name: "C15.lines.4", Pkg: "gtree", Entry: "VerifC15Lines", N: 4, RealParse: true, RealScan: true, Expect: []string{"C15.lines.nil/text", "C15.lines.same/text", "C15.lines.same/noiter", "C15.lines.same/json", "C15.lines.same/dryrun", "C15.lines.end"}},
				{Name: "C15.lines.massive4", Pkg: "gtree", Entry: "VerifC15Lines", N: 14, RealParse: true, RealScan: true, Expect: []string{"C15.lines.nil/massive", "C15.lines.same/massive", "C15.lines.noleak", "C15.lines.end"}},
				{Name: "C15.LParse.3.full", Pkg: "markdown", Entry: "VerifLParse", N: 103, RealParse: true, Expect: []string{"LP.accept", "LP.hierarchy", "LP.text", "LP.next", "LP.end"}},
				{Name: "C15.LParse.2.allbytes", Pkg: "markdown", Entry: "VerifLParse", N: 12, RealParse: true, Expect: []string{"LP.accept", "LP.hierarchy", "LP.text", "LP.next", "LP.end"}},
				{Name: "C15.LHeading.3", Pkg: "markdown", Entry: "VerifLHeading", N: 3, RealParse: true, Expect: []string{"LH.accept", "LH.root", "LH.text", "LH.next"}},
				{Name: "C15.LMalformed.2", Pkg: "markdown", Entry: "VerifLMalformed", N: 2, RealParse: true, Expect: []string{"LM.nobullet", "LM.emptytext", "LM.badindent", "LM.mixed", "LM.otherchar", "LM.blank"}},
				{Name: "C15.LAny.4", Pkg: "markdown", Entry: "VerifLAny", N: 4, RealParse: true, Expect: []string{"LA.oneof", "LA.hierarchy", "LA.text", "LA.errclass"}},
				{Name: "C15.same.4", Pkg: "gtree", Entry: "VerifC15Same", N: 4, RealParse: true, Expect: []string{"C15.canon.nil", "C15.spelling.nil", "C15.same"}},
				{Name: "C15.same.blank3", Pkg: "gtree", Entry: "VerifC15Same", N: 13, RealParse: true, Expect: []string{"C15.canon.nil", "C15.spelling.nil", "C15.same"}},
				{Name: "C15.same.sym2", Pkg: "gtree", Entry: "VerifC15Same", N: 102, RealParse: true, Expect: []string{"C15.canon.nil", "C15.spelling.nil", "C15.same"}},
			},
			Bounds: "L-parse (real Parser.Parse, one inductive step from every state an accepted prefix can leave: fresh / after a root / after root+child (unit learnt) / after root+child+root, each with and without a leading heading): notation = indent char space|tab x unit 1..4 x bullet -,*,+ per row x # roots or not; row depth 0..3; names of 2 (quick) / 3 (thorough) arbitrary ASCII bytes, 2 bytes over all 256 values (thorough); headings #..### with/without the space; malformation classes no-bullet, empty text, indentation not a multiple of the unit, tabs and spaces mixed within one row, a row indented with the other character once the document's character is known (also after a new root), whitespace-only; arbitrary rows of 3/4 bytes (result/err exclusive, text non-empty). End to end (real parser + real tree code, text output): forests of 3 (quick) / 4 (thorough) rows, canonical spelling vs every member of the notation family, with a blank or whitespace-only row (blanks, tabs; in two-row jobs also form feed, vertical tab, a stray CR, U+00A0, U+3000) at any position (also in front of the first root), the spelling also through massive mode (same per-root blocks), with the first byte of every name symbolic for 2 rows. L-scan (real bufio.Scanner, bufio.ScanLines and strings.Reader from std's SSA): documents of 5 (quick) / 7 (thorough) arbitrary bytes over all 256 values are split exactly as the line contract of the tree-level harnesses says (split at LF, one trailing CR dropped, unterminated last line delivered iff non-empty); end to end with the real scanner: forests of 3/4 rows with LF or CRLF per row, with/without the last terminator, with 0..2 empty lines appended, text (both routes), JSON, dry-run and massive-mode text give byte-identical results. Assumed: heading names have no leading/trailing blanks and no leading '#'. Tree-level insensitivity to blank rows: C01; the splitter (massive mode): C10.",
			Assume: append([]string{"real std strings code executed on symbolic bytes (leaf intrinsics: bytealg.IndexByteString, CountString, MakeNoZero; 256-entry tables as ite chains)"}, commonAssume...),
		},
		{
			ID:    "C06",
			Files: files([]string{"gtree/common.go", "gtree/progtree.go"}, filesVFS, []string{"gtree/c06.go", "gtree/c07_sym.go", "gtree/c07_native.go", "gtree/c06b.go"}),
			Quick: []Job{
				gjf("C06.md.n3", "VerifC06", 3, "C06.nil", "C06.exact.count", "C06.exact.kind", "C06.untouched", "C06.inside", "C06.exists.err", "C06.exists.unchanged"),
				gjf("C06.root.n3", "VerifC06Root", 3, "C06.root.nil", "C06.root.exact.count", "C06.root.exact.kind", "C06.root.untouched", "C06.root.exists.err", "C06.root.exists.unchanged"),
				gjf("C06.fault.n3", "VerifC06Fault", 3, "C06.fault.reported/longname", "C06.fault.reported/targetisfile", "C06.fault.reported/targetdangling"),
				gjf("C06.dup.n3", "VerifC06Dup", 3, "C06.dup.kind", "C06.dup.count", "C06.dup.nil", "C06.dup.inside", "C06.dup.end"),
				gjf("C06.dup.wide4", "VerifC06Dup", 14, "C06.dup.kind", "C06.dup.count", "C06.dup.nil", "C06.dup.inside", "C06.dup.end"),
				gj("C06.bytes.e4n5", "VerifC06Bytes", 45, "C06.bytes.nil", "C06.bytes.file", "C06.bytes.dir", "C06.bytes.dir.made"),
			},
			Thorough: []Job{
				gjf("C06.md.n4", "VerifC06", 4, "C06.nil", "C06.exact.count", "C06.exact.kind", "C06.untouched", "C06.inside", "C06.exists.err", "C06.exists.unchanged"),
				gjf("C06.root.n4", "VerifC06Root", 4, "C06.root.nil", "C06.root.exact.count", "C06.root.exact.kind", "C06.root.untouched", "C06.root.exists.err", "C06.root.exists.unchanged"),
				gjf("C06.fault.n4", "VerifC06Fault", 4, "C06.fault.reported/longname", "C06.fault.reported/targetisfile", "C06.fault.reported/targetdangling"),
				gjf("C06.dup.n4", "VerifC06Dup", 4, "C06.dup.kind", "C06.dup.count", "C06.dup.nil", "C06.dup.inside", "C06.dup.end"),
				gj("C06.bytes.e6n8", "VerifC06Bytes", 68, "C06.bytes.nil", "C06.bytes.file", "C06.bytes.dir", "C06.bytes.dir.made"),
			},
			Bounds: "forests of N rows with distinct root names / programs of N nodes (quick 3, thorough 4), names opaque single path elements, 0..2 opaque extensions (suffix tests decided by the solver, so whole-name and overlapping suffixes are included), target present / missing / holding one unrelated file or directory; one root pre-existing as file, directory, symbolic link to a directory or symbolic link to nothing; refusals: a node with an over-long name (ENAMETOOLONG on every operation touching it), the target being a regular file, the target being a symbolic link to nothing. Byte level (file rule on real bytes, no path contracts): root + one child of 5 (quick) / 8 (thorough) arbitrary ASCII name bytes, optionally a grandchild, one extension of 4 / 6 arbitrary bytes, both families. Outside: other OS refusals, symbolic links elsewhere than at a root or at the target, permissions, massive mode (C10).",
			Assume: append([]string{parseContract, pathContract, fsModel}, commonAssume...),
		},
		{
			ID:    "C07",
			Files: []string{"gtree/common.go", "gtree/vfs_sym.go", "gtree/vfs_native.go", "gtree/c07_sym.go", "gtree/c07_native.go", "gtree/c07.go", "gtree/c07l.go"},
			Quick: []Job{
				gj("C07.1x3", "VerifC07", 13, "C07.reject", "C07.accept", "C07.dryrun.nothing"),
				gj("C07.2x2", "VerifC07", 22, "C07.inside", "C07.reject", "C07.nothing", "C07.accept", "C07.dryrun.nothing"),
				gj("C07.2x3", "VerifC07", 23, "C07.inside", "C07.reject", "C07.nothing", "C07.accept", "C07.dryrun.nothing"),
				gj("C07.LPath.2x2", "VerifLPath", 22, "LPath.join", "LPath.valid", "LPath.fjoin", "LPath.fjoin.trailing"),
				gjf("C07.links.n3", "VerifC07Links", 3, "C07.links.inside/nolink", "C07.links.inside/link", "C07.links.inside/dangling", "C07.links.accept", "C07.links.end"),
			},
			Thorough: []Job{
				gj("C07.1x4", "VerifC07", 14, "C07.reject", "C07.accept", "C07.dryrun.nothing"),
				gj("C07.3x2", "VerifC07", 32, "C07.inside", "C07.reject", "C07.nothing", "C07.accept", "C07.dryrun.nothing"),
				gj("C07.2x4", "VerifC07", 24, "C07.inside", "C07.reject", "C07.nothing", "C07.accept", "C07.dryrun.nothing"),
				gj("C07.LPath.3x3", "VerifLPath", 33, "LPath.join", "LPath.valid", "LPath.fjoin", "LPath.fjoin.trailing"),
				gjf("C07.links.n4", "VerifC07Links", 4, "C07.links.inside/nolink", "C07.links.inside/link", "C07.links.inside/dangling", "C07.links.accept", "C07.links.end"),
			},
			Bounds: "byte level: trees of 1 node, 2 nodes (chain) and 3 nodes (chain, root with two children), every name an arbitrary ASCII byte string (no NUL/newline) of length 1..2/3 (quick) and 1..2 for 3 nodes, 1..4 for 2 nodes (thorough); entry points MkdirFromMarkdown, MkdirFromMarkdown+dry-run, MkdirFromRoot, MkdirFromRoot+dry-run, OutputFromMarkdown+dry-run (the CLI's route), MkdirFromMarkdown with the massive option (real pipeline under the FIFO policy) and with massive+dry-run, each with and without extension '.x'; real path.Join/Clean, filepath.Join, fs.ValidPath, strings code on symbolic bytes. os.Stat answers 'exists' for the target directory itself and 'does not exist' otherwise; os.MkdirAll/os.Create record their argument. L-path: Join of 2..3 single-element names is concatenation with '/'. Tree level on the file-system model (C07.links): forests of 3 (quick) / 4 (thorough) rows with valid names and 0..1 opaque extension, at one root's path nothing / a symbolic link to a directory outside the target / a symbolic link to nothing, MkdirFromMarkdown and MkdirFromRoot with and without the massive option and MkdirProgrammably: nothing is made or changed through the link. Outside: non-ASCII names, symbolic links below a root or at the target itself.",
			Assume: append([]string{parseContract, "os.Stat -> not exist; os.MkdirAll/Create record the path and succeed (byte-level recorder); lexical confinement only"}, commonAssume...),
		},
		{
			ID:    "C08",
			Files: files([]string{"gtree/common.go", "gtree/progtree.go"}, filesVFS, []string{"gtree/c06.go", "gtree/c08.go"}),
			Quick: []Job{
				gjf("C08.n3x1", "VerifC08", 13, "C08.readonly", "C08.iff/same", "C08.iff/differs", "C08.type", "C08.sound.missing", "C08.exact.missing", "C08.sound.extra", "C08.exact.extra", "C08.text"),
				gjf("C08.bytes.n3x1", "VerifC08", 213, "C08.readonly", "C08.iff/same", "C08.iff/differs", "C08.sound.missing", "C08.exact.missing", "C08.text"),
				gjf("C08.mkdir.n3", "VerifC08Mkdir", 3, "C08.mkdir.made", "C08.mkdir.verifies", "C08.mkdir.readonly"),
				gjf("C08.env.n3", "VerifC08Env", 3, "C08.env.reported/notarget", "C08.env.reported/targetisfile", "C08.env.readonly", "C08.env.end"),
			},
			Thorough: []Job{
				gjf("C08.n3x2", "VerifC08", 23, "C08.readonly", "C08.iff/same", "C08.iff/differs", "C08.type", "C08.sound.missing", "C08.exact.missing", "C08.sound.extra", "C08.exact.extra", "C08.text"),
				gjf("C08.bytes.n3x1.full", "VerifC08", 113, "C08.readonly", "C08.iff/same", "C08.iff/differs", "C08.sound.missing", "C08.exact.missing", "C08.sound.extra", "C08.exact.extra", "C08.text"),
				gjf("C08.mkdir.n4", "VerifC08Mkdir", 4, "C08.mkdir.made", "C08.mkdir.verifies", "C08.mkdir.readonly"),
			},
			Bounds: "forests of N=3 rows (distinct roots; From-Markdown forest or From-Root single tree), every downward-closed subset of node paths present, childless present nodes as directory or file (so a root may be a file), 0..1 (quick) / 0..2 (thorough) extra entries (directory or regular file, listed by the walk before or after the node's own children) at solver-chosen places beneath present directories, strict or not; the verdict, the two lists of the first differing root (set equality, through the error value and its public text) and read-only-ness. Mkdir-then-verify with 0..2 opaque extensions for N=3/4. Outside: N >= 4 for the state-space job (did not finish in 30 min), massive mode (C10). Byte level (real filepath code, no path contracts; added after seed s83): forests of 3 rows + 1 extra entry whose names are 1..2 bytes over the alphabet {'-', '.', '0', 'a'} (bytes on both sides of '/' in byte order), all but the last node present as directories, strict and non-strict, From-Markdown; the model lists every directory in the order of the names, as fs.WalkDir does, so that the order of a listing and the string order of full paths can disagree (quick: one two-byte name per three; thorough: every length combination). Environment: target directory a regular file or absent, forests of 3 rows, From-Markdown simple and massive, From-Root, strict or not: non-nil, read-only.",
			Assume: append([]string{parseContract, pathContract, fsModel, "fs.WalkDir modelled as: callback once per entry beneath the root, parents before children, in the order the harness lists them; SkipDir on a directory skips its subtree, on a file the rest of its directory; SkipAll ends the walk; root missing -> callback with fs.ErrNotExist, root a file -> callback with a non-ErrNotExist error"}, commonAssume...),
		},
		{
			ID:    "C09",
			Files: files([]string{"gtree/common.go", "gtree/progtree.go"}, filesVFS, []string{"gtree/c06.go", "gtree/c08.go", "gtree/c09.go"}),
			Quick: []Job{
				gjf("C09.n3", "VerifC09", 3, "C09.nil", "C09.pure", "C09.real.nil", "C09.report"),
			},
			Thorough: []Job{
				gjf("C09.n4", "VerifC09", 4, "C09.nil", "C09.pure", "C09.real.nil", "C09.report"),
			},
			Bounds: "forests of N rows (quick 3, thorough 4), names opaque single path elements, 0..2 opaque extensions; routes OutputFromMarkdown+dry-run, MkdirFromMarkdown+dry-run, MkdirFromRoot+dry-run (single root); an encode option in front of or behind WithDryRun (default branch strings); report compared with plain tree text + counts of what the real MkdirFromMarkdown then creates in the same file-system model. 'dry run rejects iff the real run rejects because of names' is decided at byte level by C07 (same five routes, every name byte symbolic). Outside: massive mode (C10).",
			Assume: append([]string{parseContract, pathContract, fsModel, "fatih/color under NoColor; bufio.Writer as buffer + one Write at Flush"}, commonAssume...),
		},
		{
			ID:    "C10",
			Files: files(filesProg, filesVFS, []string{"gtree/c06.go", "gtree/c08.go", "gtree/c09.go", "gtree/c10.go", "gtree/c10_native.go"}),
			Quick: []Job{
				gjf("C10.n2.fifo", "VerifC10", 2, "C10.err/text", "C10.same/text", "C10.same/json", "C10.same/dryrun", "C10.same/walk", "C10.same/mkdir", "C10.same/verify", "C10.noleak", "C10.end"),
				gjf("C10.text.n3.fifo", "VerifC10", 13, "C10.err/text", "C10.same/text", "C10.noleak", "C10.end"),
				{Name: "C10.n2.lifo-lastsel", Pkg: "gtree", Entry: "VerifC10", N: 2, FSModel: true, Sched: "lifo-lastsel", Expect: []string{"C10.err/text", "C10.same/text", "C10.noleak", "C10.end"}},
				{Name: "C10.text.n3.fifo-wyield", Pkg: "gtree", Entry: "VerifC10", N: 13, FSModel: true, Sched: "fifo-wyield", Expect: []string{"C10.err/text", "C10.same/text", "C10.noleak", "C10.end"}},
				gjf("C10.bullets.n3.fifo", "VerifC10", 113, "C10.err/text", "C10.same/text", "C10.noleak", "C10.end"),
				{Name: "C10.units", Pkg: "gtree", Entry: "VerifC10Units", N: 0, FSModel: true, RealParse: true, Expect: []string{"C10.err.units/same-unit", "C10.err.units/mixed-units"}},
				gjf("C10.exists", "VerifC10Exists", 0, "C10.exists.simple", "C10.exists.err", "C10.exists.fs/partial"),
				gjf("C10.reuse.n2", "VerifC10Reuse", 2, "C10.reuse.simple", "C10.reuse.err", "C10.reuse.same", "C10.reuse.end"),
				{Name: "C10.big.wyield", Pkg: "gtree", Entry: "VerifC10Big", N: 0, FSModel: true, RealParse: true, Sched: "fifo-wyield", Expect: []string{"C10.big.simple", "C10.big.nil", "C10.big.same", "C10.big.end"}},
			},
			Thorough: []Job{
				gjf("C10.reuse.n3", "VerifC10Reuse", 3, "C10.reuse.simple", "C10.reuse.err", "C10.reuse.same", "C10.reuse.end"),
				gjf("C10.n3.fifo", "VerifC10", 3, "C10.err/text", "C10.same/text", "C10.same/json", "C10.same/dryrun", "C10.same/walk", "C10.same/mkdir", "C10.same/verify", "C10.noleak", "C10.end"),
				gjf("C10.text.n4.fifo", "VerifC10", 14, "C10.err/text", "C10.same/text", "C10.noleak", "C10.end"),
				{Name: "C10.n2.lifo", Pkg: "gtree", Entry: "VerifC10", N: 2, FSModel: true, Sched: "lifo", Expect: []string{"C10.same/text", "C10.noleak", "C10.end"}},
				{Name: "C10.n2.fifo-lastsel", Pkg: "gtree", Entry: "VerifC10", N: 2, FSModel: true, Sched: "fifo-lastsel", Expect: []string{"C10.same/text", "C10.noleak", "C10.end"}},
				{Name: "C10.n2.lifo-lastsel", Pkg: "gtree", Entry: "VerifC10", N: 2, FSModel: true, Sched: "lifo-lastsel", Expect: []string{"C10.same/text", "C10.noleak", "C10.end"}},
				{Name: "C10.text.n3.lifo", Pkg: "gtree", Entry: "VerifC10", N: 13, FSModel: true, Sched: "lifo", Expect: []string{"C10.same/text", "C10.noleak", "C10.end"}},
				{Name: "C10.text.n3.lifo-lastsel", Pkg: "gtree", Entry: "VerifC10", N: 13, FSModel: true, Sched: "lifo-lastsel", Expect: []string{"C10.same/text", "C10.noleak", "C10.end"}},
				{Name: "C10.text.n4.fifo-wyield", Pkg: "gtree", Entry: "VerifC10", N: 14, FSModel: true, Sched: "fifo-wyield", Expect: []string{"C10.err/text", "C10.same/text", "C10.noleak", "C10.end"}},
				{Name: "C10.text.n4.lifo-wyield", Pkg: "gtree", Entry: "VerifC10", N: 14, FSModel: true, Sched: "lifo-wyield", Expect: []string{"C10.err/text", "C10.same/text", "C10.noleak", "C10.end"}},
				{Name: "C10.text.n3.rnd8", Pkg: "gtree", Entry: "VerifC10", N: 13, FSModel: true, Sched: "rnd8", Expect: []string{"C10.err/text", "C10.same/text", "C10.noleak", "C10.end"}},
				{Name: "C10.n2.rnd8", Pkg: "gtree", Entry: "VerifC10", N: 2, FSModel: true, Sched: "rnd8", Expect: []string{"C10.same/text", "C10.same/mkdir", "C10.noleak", "C10.end"}},
				gjf("C10.bullets.n4.fifo", "VerifC10", 114, "C10.err/text", "C10.same/text", "C10.noleak", "C10.end"),
				{Name: "C10.bullets.n3.lifo-lastsel", Pkg: "gtree", Entry: "VerifC10", N: 113, FSModel: true, Sched: "lifo-lastsel", Expect: []string{"C10.same/text", "C10.noleak", "C10.end"}},
				{Name: "C10.units", Pkg: "gtree", Entry: "VerifC10Units", N: 0, FSModel: true, RealParse: true, Expect: []string{"C10.err.units/same-unit", "C10.err.units/mixed-units"}},
				gjf("C10.exists", "VerifC10Exists", 0, "C10.exists.simple", "C10.exists.err", "C10.exists.fs/partial"),
			},
			Bounds: "documents of N rows (all operations: quick 2, thorough 3; text only: quick 3, thorough 4) from the family: roots as list items or # headings, children indented, one optional blank/whitespace-only row at any position (also leading), one optional malformed row (no bullet, empty text, nested two levels too deep); the bullet family (text output, quick 3 / thorough 4 rows): list-item roots, each root row with its own list symbol -, * or +; operations text, JSON or YAML records, dry-run report with an opaque extension, walk, mkdir with an opaque extension and verify on the file-system model; the real pipeline (splitter, 10+10+10 workers per stage, errgroup collectors) runs under a deterministic cooperative scheduler: policies FIFO, LIFO, each with first-ready or last-ready select case (quick: FIFO everywhere, LIFO/last-select for N=2); pseudo-random schedules rnd8 (thorough); for text output additionally the write-yield policies (the running goroutine goes to the back of the run queue after every Write on the output: a cooperative stand-in for preemption between printing goroutines, which is what makes a missing spreader lock visible). Byte level: two roots whose children are indented by i and j blanks, i,j in 1..4. Pre-existing root with two roots. Worker reuse: ten concrete three-level filler roots followed by a symbolic tail of 2 (quick) / 3 (thorough) rows, because blocks are handed to the ten workers of a stage in turn and per-worker state only matters from the 11th block on. NOT decided: equality under every schedule; data races. Big blocks: two or three roots each with a child whose name has 5000 bytes (more than a bufio.Writer buffer), massive text, write-yield policy.",
			Assume: append([]string{parseContract, pathContract, fsModel, encStub, "goroutines, channels, select, sync.WaitGroup/Mutex, context and errgroup are engine-native with Go semantics under a run-until-block scheduler (one interpreted goroutine runs at a time); every explored schedule is a legal Go schedule, the converse is not claimed"}, commonAssume...),
		},
		{
			ID:    "C11",
			Files: files(filesProg, filesVFS, []string{"gtree/c06.go", "gtree/c08.go", "gtree/c09.go", "gtree/c10.go", "gtree/c10_native.go", "gtree/c11.go", "gtree/c11_native.go"}),
			Quick: []Job{
				// the data-race clause on C10's operation family (text, JSON, dry-run, walk, mkdir, verify on documents with
				// blank / malformed rows and # roots): the happens-before detector rides on the same harness
				gjf("C11.race.ops.n2", "VerifC10", 2, "C10.noleak", "C10.end"),
				{Name: "C11.many", Pkg: "gtree", Entry: "VerifC11Many", N: 0, FSModel: true, RealParse: true, Expect: []string{"C11.many.returns", "C11.many.reported", "C11.noleak/many"}},
				{Name: "C11.manygood", Pkg: "gtree", Entry: "VerifC11ManyGood", N: 0, FSModel: true, RealParse: true, Expect: []string{"C11.manygood.returns", "C11.manygood.nil", "C11.noleak/manygood"}},
				{Name: "C11.long.n2.ryield", Pkg: "gtree", Entry: "VerifC11Long", N: 2, FSModel: true, Sched: "fifo-ryield", Expect: []string{"C11.long.returns", "C11.long.ctxerr.only", "C11.noleak/long", "C11.stops/reader"}},
				gjf("C11.fail.n3", "VerifC11Fail", 3, "C11.returns/parse", "C11.returns/validate", "C11.returns/write", "C11.returns/callback", "C11.returns/fs", "C11.returns/reader", "C11.reported/parse", "C11.noleak/parse", "C11.noleak/write", "C11.noleak/fs"),
				{Name: "C11.fail.n3.fifo-lastsel", Pkg: "gtree", Entry: "VerifC11Fail", N: 3, FSModel: true, Sched: "fifo-lastsel", Expect: []string{"C11.returns/parse", "C11.returns/callback", "C11.reported/callback", "C11.noleak/parse"}},
				gjf("C11.cancel.n1", "VerifC11Cancel", 1, "C11.cancel.returns", "C11.noleak/cancel"),
				gjf("C11.cancel.n2", "VerifC11Cancel", 2, "C11.cancel.returns", "C11.ctxerr.only", "C11.ctxerr/precancelled", "C11.cancel.never", "C11.noleak/cancel"),
				gjf("C11.root.n3", "VerifC11Root", 3, "C11.root.returns", "C11.root.ctxerr.only", "C11.ctxerr/precancelled-root", "C11.noleak/root"),
				{Name: "C11.cancel.n1.rnd4", Pkg: "gtree", Entry: "VerifC11Cancel", N: 1, FSModel: true, Sched: "rnd4", Expect: []string{"C11.cancel.returns", "C11.noleak/cancel"}},
			},
			Thorough: []Job{
				gjf("C11.race.ops.n3", "VerifC10", 3, "C10.noleak", "C10.end"),
				{Name: "C11.long.n6.ryield", Pkg: "gtree", Entry: "VerifC11Long", N: 6, FSModel: true, Sched: "fifo-ryield", Expect: []string{"C11.long.returns", "C11.long.ctxerr.only", "C11.noleak/long", "C11.stops/reader"}},
				{Name: "C11.long.n4.lifo-ryield", Pkg: "gtree", Entry: "VerifC11Long", N: 4, FSModel: true, Sched: "lifo-ryield", Expect: []string{"C11.long.returns", "C11.long.ctxerr.only", "C11.noleak/long", "C11.stops/reader"}},
				{Name: "C11.race.ops.n2.lifo", Pkg: "gtree", Entry: "VerifC10", N: 2, FSModel: true, Sched: "lifo", Expect: []string{"C10.noleak", "C10.end"}},
				gjf("C11.fail.n4", "VerifC11Fail", 4, "C11.returns/parse", "C11.returns/validate", "C11.returns/write", "C11.returns/callback", "C11.returns/fs", "C11.returns/reader", "C11.reported/parse", "C11.noleak/parse", "C11.noleak/write", "C11.noleak/fs"),
				{Name: "C11.fail.n4.lifo", Pkg: "gtree", Entry: "VerifC11Fail", N: 4, FSModel: true, Sched: "lifo", Expect: []string{"C11.returns/parse", "C11.noleak/parse"}},
				{Name: "C11.fail.n3.lifo-lastsel", Pkg: "gtree", Entry: "VerifC11Fail", N: 3, FSModel: true, Sched: "lifo-lastsel", Expect: []string{"C11.returns/parse", "C11.noleak/parse"}},
				gjf("C11.cancel.n1", "VerifC11Cancel", 1, "C11.cancel.returns", "C11.noleak/cancel"),
				gjf("C11.cancel.n3", "VerifC11Cancel", 3, "C11.cancel.returns", "C11.ctxerr.only", "C11.ctxerr/precancelled", "C11.cancel.never", "C11.noleak/cancel"),
				{Name: "C11.cancel.n2.lifo", Pkg: "gtree", Entry: "VerifC11Cancel", N: 2, FSModel: true, Sched: "lifo", Expect: []string{"C11.cancel.returns", "C11.noleak/cancel"}},
				{Name: "C11.cancel.n2.fifo-lastsel", Pkg: "gtree", Entry: "VerifC11Cancel", N: 2, FSModel: true, Sched: "fifo-lastsel", Expect: []string{"C11.cancel.returns", "C11.noleak/cancel"}},
				gjf("C11.root.n4", "VerifC11Root", 4, "C11.root.returns", "C11.root.ctxerr.only", "C11.ctxerr/precancelled-root", "C11.noleak/root"),
				{Name: "C11.cancel.n2.rnd8", Pkg: "gtree", Entry: "VerifC11Cancel", N: 2, FSModel: true, Sched: "rnd8", Expect: []string{"C11.cancel.returns", "C11.noleak/cancel"}},
				{Name: "C11.cancel.n1.rnd8", Pkg: "gtree", Entry: "VerifC11Cancel", N: 1, FSModel: true, Sched: "rnd8", Expect: []string{"C11.cancel.returns", "C11.noleak/cancel"}},
				{Name: "C11.fail.n3.rnd8", Pkg: "gtree", Entry: "VerifC11Fail", N: 3, FSModel: true, Sched: "rnd8", Expect: []string{"C11.returns/parse", "C11.noleak/parse"}},
				{Name: "C11.root.n3.rnd8", Pkg: "gtree", Entry: "VerifC11Root", N: 3, FSModel: true, Sched: "rnd8", Expect: []string{"C11.root.returns", "C11.noleak/root"}},
			},
			Bounds: "N root blocks (quick 3, thorough 4) of which an arbitrary subset fails, one failure stage per run: parse error, name validation error, writer refusing every write, walk callback error, mkdir with pre-existing roots, failing reader; cancellation of the caller's context at synchronisation event k (k = 0 i.e. before the call, 1..20, then every 8th up to 172, or never) for text output, walk and JSON on N=2/3 roots, and for the From-Root massive routes; a blocked main goroutine with nothing runnable is a deadlock (call never returns); verifQuiesce runs everything runnable after the return and counts goroutines still alive. Policies FIFO (all), LIFO and last-ready select (thorough), pseudo-random schedules (rndK: run-queue pick and select rotation are a deterministic function of a seed in 0..K-1 that is a case-split symbol of the path; K=4 quick on the one-root cancel job, K=8 thorough). Many failing blocks (VerifC11Many): 11 or 12 root blocks that all fail in one stage (more than the ten workers a stage has), with or without a good block behind them, on text, walk, dry-run, mkdir, verify: returns, reports, leaves nothing behind. Long block (VerifC11Long): one root with 6 (quick) / 8-10 (thorough) children, or a heading with that many list rows -- a single block for the splitter -- under the read-yield policies (every row read is a scheduling point and a cancellation instant), cancellation at event 0..24: the call returns nil or the context's error, leaves nothing behind, and at most one more row is read after it has returned. Data-race clause: every job runs with the happens-before (vector-clock) detector over the interpreted execution (go, channels, select, Mutex, WaitGroup, errgroup, context, sync/atomic, sync.Pool as synchronisation edges; loads, stores, map accesses, append, copy of library code as accesses; harness memory is user memory except the io.Writer the library writes to), also on C10's whole operation family (VerifC10: text, JSON, dry-run, walk, mkdir, verify on documents with blank / malformed rows and # roots); a report is confirmed on a -race build of the native harness. NOT decided: arbitrary schedules; weak-memory effects; races on memory touched only by host-level stubs. (The unsynchronised Parser.isSharpRoot write named in the anchors is gone since the D7 repair: each block has its own parser.) Many blocks: 11..12 failing blocks (parse or validation stage) with or without a good tail; 12..14 good blocks on text, JSON, dry-run, walk, mkdir and verify.",
			Assume: append([]string{parseContract, pathContract, fsModel, "engine-native goroutines/channels/select/sync/context/errgroup under a deterministic cooperative scheduler; every explored schedule is legal, not every legal schedule is explored"}, commonAssume...),
		},
		{
			ID:    "C16",
			Files: []string{"main/c16.go"},
			Quick: []Job{
				{Name: "C16.output", Pkg: "main", Entry: "VerifC16Output", NoNative: true, Expect: []string{"C16.wire.output", "C16.wire.output.badformat.nocall", "C16.code.output.badformat", "C16.code.output.open", "C16.code.output.exitcoder"}},
				{Name: "C16.mkdir", Pkg: "main", Entry: "VerifC16Mkdir", NoNative: true, Expect: []string{"C16.wire.mkdir", "C16.wire.mkdir.nofs", "C16.code.mkdir.open", "C16.code.mkdir.exitcoder"}},
				{Name: "C16.verify", Pkg: "main", Entry: "VerifC16Verify", NoNative: true, Expect: []string{"C16.wire.verify", "C16.code.verify.open", "C16.code.verify.exitcoder"}},
				{Name: "C16.code", Pkg: "main", Entry: "VerifC16Code", NoNative: true, Expect: []string{"C16.code.libfail", "C16.code.success"}},
				{Name: "C16.main", Pkg: "main", Entry: "VerifC16Main", NoNative: true, Expect: []string{"C16.main.usage", "C16.main.success", "C16.main.strayargs"}},
				{Name: "C16.template", Pkg: "main", Entry: "VerifC16Template", NoNative: true, Expect: []string{"C16.code.template.writefail", "C16.code.template.ok", "C16.wire.template", "C16.template.end"}},
			},
			Bounds: "all flag combinations of the three actions: --format as an arbitrary string, --massive, --massive-timeout as an arbitrary duration, --file as an arbitrary path (stdin for empty or '-'), --dry-run, 0..2 arbitrary --extension values, arbitrary --target-dir, --strict; os.Open succeeds or fails; the library call succeeds or fails; main() with App.Run returning nil or a non-ExitCoder error. --watch is excluded (ticker loop never returns). Outside: urfave/cli's own parsing of the command line, the real process on closed stdout//dev/full (library side: C14), 'template | output'. Template action: --description on or off, every write of fmt.Print/Println to the standard output accepted or refused.",
			Assume: []string{"urfave/cli: Context getters return symbolic flag values memoised by name; App.Run obeys the documented exit-coder contract (an ExitCoder error never comes back: HandleExitCoder exits with its code); cli.Exit / exitError are the real code", "gtree.OutputFromMarkdown / MkdirFromMarkdown / VerifyFromMarkdown are recording stubs; the options they receive are applied by the real gtree.newConfig and compared with what the flags denote", "os.Open, os.Exit, os.Stdin/Stdout/Stderr, color.Output are engine stubs"},
		},
		{
			ID:    "C17",
			Files: []string{"gtree/common.go", "gtree/c17.go"},
			Quick: []Job{
				{Name: "C17.any.n4", Pkg: "gtree", Entry: "VerifC17", N: 4, FSModel: true, Wasm: true, Expect: []string{"C17.acc.any/text", "C17.acc.any/json", "C17.acc.any/dryrun", "C17.out.any/text", "C17.out.any/json", "C17.out.any/dryrun"}},
				{Name: "C17.wf.n4", Pkg: "gtree", Entry: "VerifC17WF", N: 4, FSModel: true, Wasm: true, Expect: []string{"C17.out.wf/text", "C17.out.wf/json", "C17.out.wf/dryrun", "C17.out.wf/after-refusal"}},
				{Name: "C17.names.2x2", Pkg: "gtree", Entry: "VerifC17Names", N: 22, Wasm: true, Expect: []string{"C17.acc.names/text", "C17.acc.names/json", "C17.acc.names/dryrun", "C17.out.names/text", "C17.out.names/json", "C17.out.names/dryrun"}},
				{Name: "C17.long.full", Pkg: "gtree", Entry: "VerifC17Long", N: 1, Wasm: true, RealParse: true, RealScan: true, Expect: []string{"C17.acc.long/text", "C17.out.long/text", "C17.long.end"}},
				{Name: "C17.units", Pkg: "gtree", Entry: "VerifC17Units", N: 0, Wasm: true, RealParse: true, Expect: []string{"C17.acc.units/text", "C17.out.units/text", "C17.units.end"}},
				{Name: "C17.lines.3", Pkg: "gtree", Entry: "VerifC17Lines", N: 3, Wasm: true, RealParse: true, RealScan: true, Expect: []string{"C17.lines.nil/text", "C17.lines.same/text", "C17.lines.same/json", "C17.lines.same/dryrun", "C17.lines.end"}},
			},
			Thorough: []Job{
				{Name: "C17.any.n5", Pkg: "gtree", Entry: "VerifC17", N: 5, FSModel: true, Wasm: true, Expect: []string{"C17.acc.any/text", "C17.acc.any/json", "C17.acc.any/dryrun", "C17.out.any/text", "C17.out.any/json", "C17.out.any/dryrun"}},
				{Name: "C17.wf.n6", Pkg: "gtree", Entry: "VerifC17WF", N: 6, FSModel: true, Wasm: true, Expect: []string{"C17.out.wf/text", "C17.out.wf/json", "C17.out.wf/dryrun", "C17.out.wf/after-refusal"}},
				{Name: "C17.names.3x2", Pkg: "gtree", Entry: "VerifC17Names", N: 32, Wasm: true, Expect: []string{"C17.acc.names/text", "C17.acc.names/json", "C17.acc.names/dryrun", "C17.out.names/text", "C17.out.names/json", "C17.out.names/dryrun"}},
				{Name: "C17.names.2x3", Pkg: "gtree", Entry: "VerifC17Names", N: 23, Wasm: true, Expect: []string{"C17.acc.names/text", "C17.acc.names/json", "C17.acc.names/dryrun", "C17.out.names/text", "C17.out.names/json", "C17.out.names/dryrun"}},
				{Name: "C17.long.full", Pkg: "gtree", Entry: "VerifC17Long", N: 1, Wasm: true, RealParse: true, RealScan: true, Expect: []string{"C17.acc.long/text", "C17.out.long/text", "C17.long.end"}},
				{Name: "C17.lines.4", Pkg: "gtree", Entry: "VerifC17Lines", N: 4, Wasm: true, RealParse: true, RealScan: true, Expect: []string{"C17.lines.nil/text", "C17.lines.same/text", "C17.lines.same/json", "C17.lines.same/dryrun", "C17.lines.end"}},
			},
			Bounds: "documents of N rows (quick 4, thorough 5): item rows at any depth up to two levels below the previous row (level jumps, indented first row), at most one blank / no-bullet / empty-text row at any position; and well-formed forests of N rows (quick 4, thorough 6); options: text with 4 opaque branch strings, JSON record, dry-run report with 0..1 opaque extension; both variants compiled into one SSA program (the tinywasm file set regenerated from /repo's working tree on every run). Byte level (real path code of both variants, no path contracts): forests of 2 rows x names of 1..2 arbitrary ASCII bytes (quick), 3 rows x 1..2 bytes and 2 rows x 1..3 bytes (thorough), so '.', '..' and names containing '/' occur as root and as child; text, JSON, dry-run with and without the extension '.x'. Notation across blocks (real parser in both variants): two root blocks whose indented rows use 1..4 blanks or a tab per level each, list or # roots: same decision, same text. Line limit (real bufio.Scanner in both variants): a root row of 65535 bytes (fits), 65536 bytes (does not) or 131068 bytes, one arbitrary name byte, with or without a short second root: same decision, same text. Line ends (real line splitting of both variants): forests of 3 (quick) / 4 (thorough) rows, LF after every row in the default build against LF or CRLF per row, with or without the last terminator and an appended empty line, in the tinywasm build: text, JSON, dry-run identical. Every tree-level comparison also with a writer that refuses its first write (same decision). Outside: YAML/TOML (absent from the tinywasm variant), cmd/gtree-wasm's JavaScript glue.",
			Assume: append([]string{parseContract, pathContract, encStub, "the tinywasm variant is type-checked and executed as package gtree/zz_verif_wasm with build tag verif standing in for tinywasm (file selection by the original constraints)"}, commonAssume...),
		},
	}
}
