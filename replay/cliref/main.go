// cliref is the reference side of the C16 replay: it performs, through the public library API, the operation
// that a gtree command line denotes, writing to stdout and exiting 0 iff the library returned nil.
// Scenario (JSON on argv[1]): {"cmd":"output|mkdir|verify","format":"","massive":false,"timeout_ns":0,"file":"",
// "dry_run":false,"extensions":[],"target_dir":"","strict":false}
package main

import (
	"context"
	"encoding/json"
	"fmt"
	"io"
	"os"
	"time"

	"github.com/ddddddO/gtree"
	"github.com/fatih/color"
)

type scenario struct {
	Cmd        string   `json:"cmd"`
	Format     string   `json:"format"`
	Massive    bool     `json:"massive"`
	TimeoutNs  int64    `json:"timeout_ns"`
	File       string   `json:"file"`
	DryRun     bool     `json:"dry_run"`
	Extensions []string `json:"extensions"`
	TargetDir  string   `json:"target_dir"`
	Strict     bool     `json:"strict"`
}

func main() {
	var sc scenario
	if err := json.Unmarshal([]byte(os.Args[1]), &sc); err != nil {
		fmt.Fprintln(os.Stderr, "bad scenario:", err)
		os.Exit(97)
	}
	var in io.Reader = os.Stdin
	if sc.File != "" && sc.File != "-" {
		f, err := os.Open(sc.File)
		if err != nil {
			fmt.Fprintln(os.Stderr, err)
			os.Exit(1)
		}
		defer f.Close()
		in = f
	}
	var err error
	switch sc.Cmd {
	case "output":
		var opts []gtree.Option
		switch sc.Format {
		case "json":
			opts = append(opts, gtree.WithEncodeJSON())
		case "yaml":
			opts = append(opts, gtree.WithEncodeYAML())
		case "toml":
			opts = append(opts, gtree.WithEncodeTOML())
		case "":
		default:
			fmt.Fprintln(os.Stderr, "bad format")
			os.Exit(1)
		}
		if sc.TimeoutNs > 0 {
			ctx, cancel := context.WithTimeout(context.Background(), time.Duration(sc.TimeoutNs))
			defer cancel()
			opts = append(opts, gtree.WithMassive(ctx))
		} else if sc.Massive {
			opts = append(opts, gtree.WithMassive(context.Background()))
		}
		err = gtree.OutputFromMarkdown(os.Stdout, in, opts...)
	case "mkdir":
		opts := []gtree.Option{gtree.WithTargetDir(sc.TargetDir), gtree.WithFileExtensions(sc.Extensions)}
		if sc.Massive {
			opts = append(opts, gtree.WithMassive(context.Background()))
		}
		if sc.DryRun {
			opts = append(opts, gtree.WithDryRun())
			err = gtree.OutputFromMarkdown(color.Output, in, opts...)
		} else {
			err = gtree.MkdirFromMarkdown(in, opts...)
		}
	case "verify":
		opts := []gtree.Option{gtree.WithTargetDir(sc.TargetDir)}
		if sc.Strict {
			opts = append(opts, gtree.WithStrictVerify())
		}
		err = gtree.VerifyFromMarkdown(in, opts...)
	default:
		os.Exit(98)
	}
	if err != nil {
		fmt.Fprintln(os.Stderr, err)
		os.Exit(1)
	}
}
