module cliref

go 1.24

require (
	github.com/ddddddO/gtree v0.0.0
	github.com/fatih/color v1.18.0
)

require (
	github.com/mattn/go-colorable v0.1.13 // indirect
	github.com/mattn/go-isatty v0.0.20 // indirect
	github.com/pelletier/go-toml/v2 v2.2.4 // indirect
	golang.org/x/sync v0.13.0 // indirect
	golang.org/x/sys v0.25.0 // indirect
	gopkg.in/yaml.v3 v3.0.1 // indirect
)

replace github.com/ddddddO/gtree => /repo
