//go:build verif

package PKG

import (
	"encoding/json"
	"fmt"
	"os"
	"runtime"
	"testing"
)

// TestVerifReplay runs one harness entry natively on the concrete model in $VERIF_MODEL and prints the
// outcome as one JSON line prefixed by VERIF-RESULT.
func TestVerifReplay(t *testing.T) {
	path := os.Getenv("VERIF_MODEL")
	if path == "" {
		t.Skip("no model")
	}
	if err := verifLoadModel(path); err != nil {
		t.Fatal(err)
	}
	f := verifEntries[verifModel.Entry]
	if f == nil {
		t.Fatalf("unknown entry %q", verifModel.Entry)
	}
	verifResult.Entry = verifModel.Entry
	verifBaseGor = runtime.NumGoroutine()
	func() {
		defer func() {
			if p := recover(); p != nil {
				if _, ok := p.(verifAssumeFailed); ok {
					return
				}
				buf := make([]byte, 4096)
				buf = buf[:runtime.Stack(buf, false)]
				verifResult.Panic = fmt.Sprintf("%v\n%s", p, buf)
			}
		}()
		f()
	}()
	b, _ := json.Marshal(verifResult)
	fmt.Printf("\nVERIF-RESULT %s\n", b)
}
