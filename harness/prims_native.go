//go:build verif

package PKG

// Native implementation of the harness primitives: values come from a concrete model (the solver's
// assignment for one path, written by gosym), assertions are evaluated concretely against the real build.

import (
	"context"
	"encoding/hex"
	"encoding/json"
	"fmt"
	"os"
	"runtime"
	"strings"
	"time"
)

type verifModelT struct {
	Entry string            `json:"entry"`
	N     int               `json:"n"`
	Strs  map[string]string `json:"strs"` // hex
	Ints  map[string]uint64 `json:"ints"`
	Bools map[string]bool   `json:"bools"`
}

type verifResultT struct {
	Entry        string            `json:"entry"`
	Failed       []string          `json:"failed"`
	Asserts      map[string]int    `json:"asserts"`
	Reached      map[string]int    `json:"reached"`
	Observed     map[string]string `json:"observed"`
	AssumeFailed bool              `json:"assume_failed"`
	Defaulted    []string          `json:"defaulted,omitempty"`
	Panic        string            `json:"panic,omitempty"`
	Context      string            `json:"context,omitempty"`
	Notes        []string          `json:"notes,omitempty"`
}

var (
	verifModel    verifModelT
	verifResult   = verifResultT{Asserts: map[string]int{}, Reached: map[string]int{}, Observed: map[string]string{}}
	verifSeq      = map[string]int{}
	verifObsSeq   = map[string]int{}
	verifEntries  = map[string]func(){}
	verifBaseGor  int
	verifAssumeKO bool
)

type verifAssumeFailed struct{}

func verifLoadModel(path string) error {
	b, err := os.ReadFile(path)
	if err != nil {
		return err
	}
	return json.Unmarshal(b, &verifModel)
}

func verifKey(prefix, label string) string {
	k := prefix + label
	n := verifSeq[k]
	verifSeq[k] = n + 1
	return fmt.Sprintf("%s_%d", k, n)
}

func verifN() int        { return verifModel.N }
func verifNative() bool  { return true }
func verifRegister(name string, f func()) { verifEntries[name] = f }

// verifLongPad: names equal (in the model) to the designated over-long name get the same 256-byte prefix, so that
// all equalities of the model are preserved while the real OS refuses the name with ENAMETOOLONG.
var verifLongPad = strings.Repeat("~", 256)

func verifStrVal(label, dflt string) string {
	k := verifKey("s_", label)
	if h, ok := verifModel.Strs[k]; ok {
		b, err := hex.DecodeString(h)
		if err != nil {
			panic("bad hex in model for " + k)
		}
		if lh, ok := verifModel.Strs["s_long_0"]; ok && lh == h {
			return verifLongPad + string(b)
		}
		return string(b)
	}
	verifResult.Defaulted = append(verifResult.Defaulted, k)
	return dflt
}

func verifStr(label string) string  { return verifStrVal(label, "") }
func verifText(label string) string { return verifStrVal(label, "t") }
func verifName(label string) string { return verifStrVal(label, "n") }
func verifLongName(label string) string {
	s := verifStrVal(label, "n")
	if !strings.HasPrefix(s, verifLongPad) {
		s = verifLongPad + s
	}
	return s
}

func verifBytes(label string, n int) string {
	b := make([]byte, n)
	for i := range b {
		k := verifKey("y_", label)
		if v, ok := verifModel.Ints[k]; ok {
			b[i] = byte(v)
		} else {
			verifResult.Defaulted = append(verifResult.Defaulted, k)
			b[i] = 'a'
		}
	}
	return string(b)
}

func verifUint(label string) uint {
	k := verifKey("u_", label)
	if v, ok := verifModel.Ints[k]; ok {
		return uint(v)
	}
	verifResult.Defaulted = append(verifResult.Defaulted, k)
	return 0
}

func verifBool(label string) bool {
	k := verifKey("b_", label)
	if v, ok := verifModel.Bools[k]; ok {
		return v
	}
	verifResult.Defaulted = append(verifResult.Defaulted, k)
	return false
}

func verifFlag(label string) bool { return verifBool(label) }

func verifChoose(label string, lo, hi uint) uint {
	k := verifKey("c_", label)
	v, ok := verifModel.Ints[k]
	if !ok {
		verifResult.Defaulted = append(verifResult.Defaulted, k)
		return lo
	}
	if uint(v) < lo || uint(v) > hi {
		verifResult.AssumeFailed = true
		panic(verifAssumeFailed{})
	}
	return uint(v)
}

func verifAssume(c bool) {
	if !c {
		verifResult.AssumeFailed = true
		panic(verifAssumeFailed{})
	}
}

func verifAssert(c bool, id string) {
	verifResult.Asserts[id]++
	if !c {
		for _, f := range verifResult.Failed {
			if f == id {
				return
			}
		}
		verifResult.Failed = append(verifResult.Failed, id)
	}
}

func verifReach(id string)         { verifResult.Reached[id]++ }
func verifContext(label string)    { verifResult.Context = label }
func verifNote(s string)           { verifResult.Notes = append(verifResult.Notes, s) }
func verifObserve(label, s string) {
	k := fmt.Sprintf("%s#%d", label, verifObsSeq[label])
	verifObsSeq[label]++
	verifResult.Observed[k] = hex.EncodeToString([]byte(s))
}

func verifIndent(depth uint) string { return strings.Repeat("  ", int(depth)) }

// verifRow spells an abstract row in the canonical notation (two-space unit, '-' bullets) unless the
// harness fixed the notation bytes itself through prefix.
func verifRow(prefix string, kind int, depth uint, text string) string {
	verifKey("", "row") // keeps the numbering of row atoms aligned with the engine
	switch kind {
	case 0:
		if prefix == "" {
			prefix = verifIndent(depth) + "- "
		}
		return prefix + text
	case 1:
		return prefix
	case 2:
		if prefix == "" {
			prefix = verifIndent(depth)
		}
		return prefix + "x" + text
	case 3:
		if prefix == "" {
			prefix = verifIndent(depth) + "-"
		}
		return prefix
	}
	panic("verifRow: unknown kind")
}

// verifQuiesce waits for the goroutines started since the entry began to finish; returns how many are left.
func verifQuiesce() int {
	for i := 0; i < 100; i++ {
		if runtime.NumGoroutine() <= verifBaseGor {
			return 0
		}
		time.Sleep(5 * time.Millisecond)
	}
	return runtime.NumGoroutine() - verifBaseGor
}

// verifCtx natively: event indices cannot be reproduced on the real scheduler; 0 is an already cancelled context,
// other indices cancel after a proportional delay (the assertions that use it hold for every instant).
// verifCtxDeadline natively: a context with a timeout (0: a deadline that has passed already)
func verifCtxDeadline(k uint) context.Context {
	switch {
	case k == 0:
		ctx, cancel := context.WithDeadline(context.Background(), time.Now().Add(-time.Second))
		_ = cancel
		return ctx
	case k < 100000:
		ctx, cancel := context.WithTimeout(context.Background(), time.Duration(k)*5*time.Microsecond)
		_ = cancel
		return ctx
	}
	return context.Background()
}

func verifCtx(k uint) context.Context {
	ctx, cancel := context.WithCancel(context.Background())
	switch {
	case k == 0:
		cancel()
	case k < 100000:
		go func() {
			time.Sleep(time.Duration(k) * 5 * time.Microsecond)
			cancel()
		}()
	default:
		_ = cancel
	}
	return ctx
}
