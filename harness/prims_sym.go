//go:build verif

package PKG

import "context"

// Engine-provided primitives: bodiless declarations, intercepted by gosym (never linked).
// The native twin of this file (prims_native.go) implements them over a concrete model so that the same
// harness runs against the real build for witness / counterexample replay.

func verifN() int                                                // size parameter of the job
func verifNative() bool                                          // false under the engine, true in the native replay
func verifStr(label string) string                               // arbitrary one-line string (opaque atom)
func verifText(label string) string                              // arbitrary non-empty one-line string
func verifName(label string) string                              // arbitrary single valid path element
func verifLongName(label string) string                          // as verifName; natively longer than 255 bytes (ENAMETOOLONG)
func verifBytes(label string, n int) string                      // n arbitrary bytes
func verifUint(label string) uint                                // arbitrary 64-bit value
func verifBool(label string) bool                                // arbitrary boolean (symbolic)
func verifFlag(label string) bool                                // arbitrary boolean, case-split at once
func verifChoose(label string, lo, hi uint) uint                 // arbitrary value in [lo,hi], case-split at once
func verifAssume(c bool)                                         // restricts the inputs
func verifAssert(c bool, id string)                              // the property
func verifReach(id string)                                       // vacuity witness
func verifContext(label string)                                  // names the operation a panic/deadlock is attributed to
func verifObserve(label, s string)                               // value compared between engine and real build
func verifNote(s string)                                         // free-text description of the case (evidence samples)
func verifRow(prefix string, kind int, depth uint, text string) string // abstract Markdown row
func verifRegister(name string, f func())                        // entry registry (used by the native replay only)
func verifFSCalls() []string                                     // byte-level FS recorder: paths handed to mutating os calls so far
func verifCtxDeadline(k uint) context.Context                    // as verifCtx, but the context ends by its deadline: Err() is context.DeadlineExceeded
func verifCtx(k uint) context.Context                            // context cancelled at synchronisation event k of the run (0: already cancelled; >= 100000: never)
func verifFSKinds() []string                                     // same order as verifFSCalls: "mkdir" or "create"
func verifQuiesce() int                                          // lets all goroutines run; returns how many are left
