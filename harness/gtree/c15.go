//go:build verif

package gtree

import "context"

func init() {
	verifRegister("VerifC15Same", VerifC15Same)
}

func repStr(c string, n int) string {
	s := ""
	for i := 0; i < n; i++ {
		s += c
	}
	return s
}

// VerifC15Same: end-to-end at byte level, no stub between parser and tree code. One forest of n rows (every
// well-formed depth sequence; concrete distinct names - arbitrary name bytes are the subject of the L-parse
// lemmas) is written in the canonical spelling and in an arbitrary member of the notation family (indent char
// space/tab, unit 1..4, bullet per row, roots as # headings or not, optionally a blank / whitespace-only row at
// any position when (verifN()/10)%10 != 0; first byte of every name symbolic when verifN() >= 100); the real parser and the real tree code run on both; both are accepted and
// give byte-identical text output. n%10 = number of rows. verifN() >= 1000: the spelling goes through massive mode
// (same per-root blocks, any order).
func VerifC15Same() {
	n := verifN() % 10
	withBlank := (verifN()/10)%10 != 0
	symNames := (verifN()/100)%10 != 0
	massive := verifN() >= 1000 // spelling B goes through the massive pipeline (splitter + one parser per block)
	c := " "
	if verifFlag("tab") {
		c = "\t"
	}
	u := int(verifChoose("unit", 1, 4))
	sharp := verifFlag("sharp")
	bullets := []string{"-", "*", "+"}
	var rowsA, rowsB []string
	prev := uint(0)
	blankAt := n + 1
	if withBlank {
		blankAt = int(verifChoose("blankAt", 0, uint(n)))
	}
	addBlank := func(i int) {
		if i == blankAt {
			// blank in the sense of the property: empty, or white space only -- Unicode white space, as strings.TrimSpace
			// sees it (form feed, vertical tab, a stray CR, U+00A0, U+3000), wherever it starts
			kinds := []string{"", "  ", "\t", " \t "}
			if (verifN()/10)%10 == 2 {
				kinds = append(kinds, "\f", "\v", "\r", "\u00a0", "\u3000 ", " \f") // (a job of its own: two rows)
			}
			rowsB = append(rowsB, kinds[verifChoose("blankKind", 0, uint(len(kinds)-1))])
		}
	}
	for i := 0; i < n; i++ {
		var d uint
		if i > 0 {
			d = verifChoose("depth", 0, prev+1)
		}
		prev = d
		name := "n" + string(rune('0'+i))
		if symNames {
			// first byte of every name arbitrary (ASCII): bullets, blanks, '#' inside names meet every notation
			first := verifBytes("name", 1)
			verifAssume(first[0] != '\n' && first[0] < 0x80)
			if sharp && d == 0 {
				verifAssume(first[0] != ' ' && first[0] != '#')
			}
			name = first + string(rune('0'+i))
		}
		addBlank(i)
		rowsA = append(rowsA, repStr("  ", int(d))+"- "+name)
		b := bullets[verifChoose("bullet", 0, 2)]
		switch {
		case sharp && d == 0:
			rowsB = append(rowsB, "# "+name)
		case sharp:
			rowsB = append(rowsB, repStr(c, u*int(d-1))+b+" "+name)
		default:
			rowsB = append(rowsB, repStr(c, u*int(d))+b+" "+name)
		}
	}
	addBlank(n)
	run := func(rows []string) (string, error) {
		w := newVerifWriter()
		err := OutputFromMarkdown(w, &verifReader{lines: rows})
		return w.out, err
	}
	verifContext("C15.same")
	outA, errA := run(rowsA)
	if massive {
		w := newVerifWriter()
		errB := OutputFromMarkdown(w, &verifReader{lines: rowsB}, WithMassive(context.Background()))
		verifAssert(errA == nil, "C15.canon.nil")
		verifAssert(errB == nil, "C15.spelling.nil/massive")
		verifAssert(sameBlocks(outA, w.out), "C15.same/massive")
		verifAssert(verifQuiesce() == 0, "C15.noleak")
		verifReach("C15.end")
		return
	}
	outB, errB := run(rowsB)
	verifAssert(errA == nil, "C15.canon.nil")
	verifAssert(errB == nil, "C15.spelling.nil")
	verifObserve("outB", outB)
	verifAssert(outA == outB, "C15.same")
	verifReach("C15.end")
}
