//go:build verif

package gtree

import "context"

func init() {
	verifRegister("VerifC07Links", VerifC07Links)
}

// VerifC07Links: confinement against what is already on disk, at tree level on the file-system model: every forest of
// n rows with valid names, 0..1 extension, and at the path of one root (solver-chosen) nothing, a symbolic link to a
// directory that lies outside the target, or a symbolic link to nothing. Every Mkdir entry point (From-Markdown and
// From-Root with its deprecated alias, with and without the massive option): whatever the call answers, nothing is
// created or changed through the link, i.e. outside the target directory.
func VerifC07Links() {
	n := verifN()
	lines, rows := wellFormedLines(n, verifName)
	nodes, roots := specForest(lines)
	for i, r := range roots {
		for j := 0; j < i; j++ {
			verifAssume(nodes[r].name != nodes[roots[j]].name)
		}
	}
	var exts []string
	if verifFlag("ext") {
		exts = []string{verifStr("ext")}
	}
	vfsReset()
	which := roots[verifChoose("which", 0, uint(len(roots)-1))]
	rootIs := verifChoose("rootIs", 0, 2)
	switch rootIs {
	case 1:
		vfsAdd([]string{nodes[which].name}, 1)
		vfsMakeLink([]string{nodes[which].name})
	case 2:
		vfsAdd([]string{nodes[which].name}, 4)
	}
	vfsSeal()
	route := verifChoose("route", 0, 4)
	if route >= 2 {
		verifAssume(len(roots) == 1)
	}
	build := func() *Node {
		var real []*Node
		for i := range nodes {
			if nodes[i].parent < 0 {
				real = append(real, NewRoot(nodes[i].name))
			} else {
				real = append(real, real[nodes[i].parent].Add(nodes[i].name))
			}
		}
		return real[0]
	}
	verifContext("C07.links")
	var err error
	switch route {
	case 0:
		err = MkdirFromMarkdown(&verifReader{lines: rows}, WithTargetDir(vfsTarget()), WithFileExtensions(exts))
	case 1:
		err = MkdirFromMarkdown(&verifReader{lines: rows}, WithTargetDir(vfsTarget()), WithFileExtensions(exts), WithMassive(context.Background()))
	case 2:
		err = MkdirFromRoot(build(), WithTargetDir(vfsTarget()), WithFileExtensions(exts))
	case 3:
		err = MkdirProgrammably(build(), WithTargetDir(vfsTarget()), WithFileExtensions(exts))
	case 4:
		err = MkdirFromRoot(build(), WithTargetDir(vfsTarget()), WithFileExtensions(exts), WithMassive(context.Background()))
	}
	cls := []string{"/nolink", "/link", "/dangling"}[rootIs]
	verifAssert(vfsTouchedOutside() == 0, "C07.links.inside"+cls)
	if rootIs == 0 {
		verifAssert(err == nil, "C07.links.accept")
	}
	verifAssert(verifQuiesce() == 0, "C07.links.noleak")
	verifReach("C07.links.end")
}
