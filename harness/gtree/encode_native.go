//go:build verif

package gtree

import (
	"bytes"
	"encoding/json"
	"io"

	toml "github.com/pelletier/go-toml/v2"
	"gopkg.in/yaml.v3"
)

type decNode struct {
	Value    string     `json:"value" yaml:"value" toml:"value"`
	Children []*decNode `json:"children" yaml:"children" toml:"children"`
}

func decEqual(d *decNode, r *rec) bool {
	if d == nil || d.Value != r.name || len(d.Children) != len(r.children) {
		return false
	}
	for i := range r.children {
		if !decEqual(d.Children[i], r.children[i]) {
			return false
		}
	}
	return true
}

// encMatches (native side): the real encoder's bytes are decoded with the standard decoder of the format
// (one JSON value per line, one YAML document per root, a single TOML document) and compared with the records.
func encMatches(kind int, out string, want []*rec) bool {
	return encMatchesOrder(kind, out, want, true)
}

// encMatchesAnyOrder: as encMatches, the records may come in any order (massive mode).
func encMatchesAnyOrder(kind int, out string, want []*rec) bool {
	return encMatchesOrder(kind, out, want, false)
}

func encMatchesOrder(kind int, out string, want []*rec, ordered bool) bool {
	var got []*decNode
	switch kind {
	case encJSON:
		dec := json.NewDecoder(bytes.NewReader([]byte(out)))
		for {
			var d decNode
			err := dec.Decode(&d)
			if err == io.EOF {
				break
			}
			if err != nil {
				return false
			}
			got = append(got, &d)
		}
	case encYAML:
		dec := yaml.NewDecoder(bytes.NewReader([]byte(out)))
		for {
			var d decNode
			err := dec.Decode(&d)
			if err == io.EOF {
				break
			}
			if err != nil {
				return false
			}
			got = append(got, &d)
		}
	case encTOML:
		if len(want) == 0 && len(out) == 0 {
			return true
		}
		var d decNode
		if err := toml.Unmarshal([]byte(out), &d); err != nil {
			return false
		}
		got = append(got, &d)
	}
	if len(got) != len(want) {
		return false
	}
	if ordered {
		for i := range want {
			if !decEqual(got[i], want[i]) {
				return false
			}
		}
		return true
	}
	used := make([]bool, len(got))
	for _, w := range want {
		found := false
		for i, g := range got {
			if !used[i] && decEqual(g, w) {
				used[i], found = true, true
				break
			}
		}
		if !found {
			return false
		}
	}
	return true
}
