//go:build verif

package gtree

func init() {
	verifRegister("VerifC03", VerifC03)
	verifRegister("VerifC03Reject", VerifC03Reject)
}

func c03WalkTrace(wn *WalkerNode) string {
	s := wn.Name() + "|" + wn.Branch() + "|" + wn.Row() + "|" + wn.Path() + "|"
	s += string(rune('0' + wn.Level()))
	if wn.HasChild() {
		s += "+"
	}
	return s + "\n"
}

// VerifC03: a tree built by a symbolic program of NewRoot + (n-1) Add calls (solver-chosen parents, names that
// may repeat) and the Markdown spelling of the same tree give identical results through the two API families:
// text with opaque branch strings (the fused grow-and-print path vs grower+spreader), JSON/YAML/TOML records,
// callback walk, iterator walk; the deprecated aliases agree with their replacements.
func VerifC03() {
	n := verifN() % 10
	second := verifN() >= 10 // the second operation set (failing writer, dry-run report): a job of its own
	// the program: NewRoot, then n-1 Adds; optionally some From-Root call runs between two Adds (any position)
	root := &mNode{name: verifName("name")}
	root.real = NewRoot(root.name)
	nodes := []*mNode{root}
	callAt := int(verifChoose("callAt", 0, uint(n-1))) // n-1: no call in between
	for i := 0; i < n-1; i++ {
		if i == callAt {
			switch verifChoose("between", 0, 1) {
			case 0:
				OutputFromRoot(newVerifWriter(), root.real)
			case 1:
				WalkFromRoot(root.real, func(*WalkerNode) error { return nil })
			}
		}
		p := nodes[verifChoose("parent", 0, uint(len(nodes)-1))]
		if c, created := mAdd(p, verifName("name"), "C03.add"); created {
			nodes = append(nodes, c)
		}
	}
	var rows []string
	mMarkdownRows(root, 0, &rows)
	var op uint
	if second {
		op = verifChoose("op", 4, 5)
	} else {
		op = verifChoose("op", 0, 3)
	}
	verifContext("C03.pair")
	switch op {
	case 5: // Output with the dry-run option (0..1 opaque extension): the same report from both families
		var exts []string
		if verifFlag("ext") {
			exts = append(exts, verifStr("ext"))
		}
		w1, w2 := newVerifWriter(), newVerifWriter()
		e1 := OutputFromRoot(w1, root.real, WithDryRun(), WithFileExtensions(exts))
		e2 := OutputFromMarkdown(w2, &verifReader{lines: rows}, WithDryRun(), WithFileExtensions(exts))
		verifAssert(e1 == nil && e2 == nil, "C03.dryrun.nil")
		verifObserve("dryrun", w1.out)
		verifAssert(w1.out == w2.out, "C03.dryrun")
	case 4: // a writer that refuses write number j: both families report it (or both finish), text and encodings
		j := int(verifChoose("failAt", 0, uint(len(nodes))))
		var opts []Option
		if k := int(verifChoose("enc", 0, 3)); k > 0 {
			opts = append(opts, encOption(k))
		}
		w1, w2, w3 := newVerifWriter(), newVerifWriter(), newVerifWriter()
		w1.failAt, w2.failAt, w3.failAt = j, j, j
		e1 := OutputFromRoot(w1, root.real, opts...)
		e2 := OutputFromMarkdown(w2, &verifReader{lines: rows}, opts...)
		e3 := OutputProgrammably(w3, root.real, opts...)
		verifAssert(w1.failed == w2.failed && w1.failed == w3.failed, "C03.fail.samewrites")
		verifAssert((e1 != nil) == (e2 != nil) && (e3 != nil) == (e2 != nil), "C03.fail.err")
		verifAssert(w1.out == w2.out && w3.out == w2.out, "C03.fail.out")
	case 0: // text, opaque branch strings
		ld, li, md, mi := verifStr("ld"), verifStr("li"), verifStr("md"), verifStr("mi")
		o1, o2 := WithBranchFormatLastNode(ld, li), WithBranchFormatIntermedialNode(md, mi)
		w1, w2, w3, w4 := newVerifWriter(), newVerifWriter(), newVerifWriter(), newVerifWriter()
		e1 := OutputFromRoot(w1, root.real, o1, o2)
		e2 := OutputFromMarkdown(w2, &verifReader{lines: rows}, o1, o2)
		verifAssert(e1 == nil && e2 == nil, "C03.text.nil")
		verifObserve("text", w1.out)
		verifAssert(w1.out == w2.out, "C03.text")
		verifAssert(w1.out == mRender(root, ld, li, md, mi), "C03.text.ref")
		e3 := OutputProgrammably(w3, root.real, o1, o2)
		e4 := Output(w4, &verifReader{lines: rows}, o1, o2)
		verifAssert(e3 == nil && e4 == nil && w3.out == w1.out && w4.out == w2.out, "C03.alias.output")
	case 1: // encodings
		kind := int(verifChoose("enc", 1, 3))
		w1, w2 := newVerifWriter(), newVerifWriter()
		e1 := OutputFromRoot(w1, root.real, encOption(kind))
		e2 := OutputFromMarkdown(w2, &verifReader{lines: rows}, encOption(kind))
		verifAssert(e1 == nil && e2 == nil, "C03.enc.nil")
		want := []*rec{recOfM(root)}
		verifAssert(encMatches(kind, w1.out, want) && encMatches(kind, w2.out, want), "C03.enc")
	case 2: // callback walk, with custom (opaque) branch strings: every entry point honours its options
		t1, t2, t3, t4 := "", "", "", ""
		o1, o2 := WithBranchFormatLastNode(verifStr("ld"), verifStr("li")), WithBranchFormatIntermedialNode(verifStr("md"), verifStr("mi"))
		e1 := WalkFromRoot(root.real, func(wn *WalkerNode) error { t1 += c03WalkTrace(wn); return nil }, o1, o2)
		e2 := WalkFromMarkdown(&verifReader{lines: rows}, func(wn *WalkerNode) error { t2 += c03WalkTrace(wn); return nil }, o1, o2)
		verifAssert(e1 == nil && e2 == nil, "C03.walk.nil")
		verifObserve("walk", t1)
		verifAssert(t1 == t2, "C03.walk")
		e3 := WalkProgrammably(root.real, func(wn *WalkerNode) error { t3 += c03WalkTrace(wn); return nil }, o1, o2)
		e4 := Walk(&verifReader{lines: rows}, func(wn *WalkerNode) error { t4 += c03WalkTrace(wn); return nil }, o1, o2)
		verifAssert(e3 == nil && e4 == nil && t3 == t1 && t4 == t2, "C03.alias.walk")
	case 3: // iterator walk vs callback walk, with custom (opaque) branch strings
		t1, t2, t3 := "", "", ""
		o1, o2 := WithBranchFormatLastNode(verifStr("ld"), verifStr("li")), WithBranchFormatIntermedialNode(verifStr("md"), verifStr("mi"))
		for wn, err := range WalkIterFromRoot(root.real, o1, o2) {
			verifAssert(err == nil, "C03.iter.nil")
			t1 += c03WalkTrace(wn)
		}
		e2 := WalkFromMarkdown(&verifReader{lines: rows}, func(wn *WalkerNode) error { t2 += c03WalkTrace(wn); return nil }, o1, o2)
		verifAssert(e2 == nil, "C03.iter.nil")
		verifAssert(t1 == t2, "C03.iter")
		for wn, err := range WalkIterProgrammably(root.real, o1, o2) {
			verifAssert(err == nil, "C03.iter.nil")
			t3 += c03WalkTrace(wn)
		}
		verifAssert(t3 == t1, "C03.alias.iter")
	}
	verifReach("C03.end")
}

// VerifC03Reject: a nil node and a node that is not a root are rejected by every From-Root entry point (and its
// deprecated alias) with ErrNilNode / ErrNotRoot before anything is written, called back or touched on disk.
func VerifC03Reject() {
	n := verifN()
	root, nodes := buildProgram(n-1, verifName, "C03.add")
	_ = root
	var arg *Node
	want := ErrNilNode
	if verifFlag("nonroot") {
		verifAssume(len(nodes) > 1)
		arg = nodes[verifChoose("which", 1, uint(len(nodes)-1))].real
		want = ErrNotRoot
	}
	w := newVerifWriter()
	calls := 0
	cb := func(*WalkerNode) error { calls++; return nil }
	vfsReset()
	vfsSeal()
	var err error
	ep := verifChoose("entry", 0, 9)
	verifContext("C03.reject")
	switch ep {
	case 0:
		err = OutputFromRoot(w, arg)
	case 1:
		err = OutputProgrammably(w, arg, WithEncodeJSON())
	case 2:
		err = MkdirFromRoot(arg, WithTargetDir(vfsTarget()))
	case 3:
		err = MkdirProgrammably(arg, WithTargetDir(vfsTarget()), WithDryRun())
	case 4:
		err = VerifyFromRoot(arg, WithTargetDir(vfsTarget()))
	case 5:
		err = VerifyProgrammably(arg, WithTargetDir(vfsTarget()), WithStrictVerify())
	case 6:
		err = WalkFromRoot(arg, cb)
	case 7:
		err = WalkProgrammably(arg, cb)
	case 8:
		for wn, e := range WalkIterFromRoot(arg) {
			if wn != nil {
				calls++
			}
			err = e
		}
	case 9:
		for wn, e := range WalkIterProgrammably(arg) {
			if wn != nil {
				calls++
			}
			err = e
		}
	}
	verifAssert(err == want, "C03.reject.err")
	verifAssert(len(w.out) == 0 && w.n == 0, "C03.reject.nowrite")
	verifAssert(calls == 0, "C03.reject.nocallback")
	verifAssert(vfsTouched() == 0, "C03.reject.nofs")
	verifReach("C03.reject.end")
}

func init() {
	verifRegister("VerifC03Bytes", VerifC03Bytes)
}

// VerifC03Bytes: the text pair at byte level. Programs of n nodes with concrete distinct names (every shape), the
// four branch strings 0..2 arbitrary ASCII bytes each, so code that looks INTO the branch strings (trimming,
// searching) is executed on symbolic bytes: From-Root text == From-Markdown text == reference rendering.
func VerifC03Bytes() {
	n := verifN()
	k := 0
	root, _ := buildProgram(n-1, func(string) string { k++; return "n" + string(rune('0'+k)) }, "C03.add")
	var rows []string
	mMarkdownRows(root, 0, &rows)
	bs := func(label string) string {
		l := int(verifChoose("len_"+label, 0, 2))
		s := verifBytes(label, l)
		for j := 0; j < len(s); j++ {
			verifAssume(s[j] != '\n' && s[j] < 0x80)
		}
		return s
	}
	ld, li, md, mi := bs("ld"), bs("li"), bs("md"), bs("mi")
	o1, o2 := WithBranchFormatLastNode(ld, li), WithBranchFormatIntermedialNode(md, mi)
	w1, w2 := newVerifWriter(), newVerifWriter()
	verifContext("C03.bytes")
	e1 := OutputFromRoot(w1, root.real, o1, o2)
	e2 := OutputFromMarkdown(w2, &verifReader{lines: rows}, o1, o2)
	verifAssert(e1 == nil && e2 == nil, "C03.bytes.nil")
	verifObserve("text", w1.out)
	verifAssert(w1.out == w2.out, "C03.bytes.text")
	verifAssert(w1.out == mRender(root, ld, li, md, mi), "C03.bytes.ref")
	verifReach("C03.bytes.end")
}
