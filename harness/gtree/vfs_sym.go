//go:build verif

package gtree

import (
	"errors"
	"syscall"
)

// File-system model (engine side): plain Go, executed symbolically. The engine forwards os.Stat / os.MkdirAll /
// os.Create / os.DirFS+fs.WalkDir to vfsStat / vfsMkdirAll / vfsCreate / vfsList; every other os mutator is
// unsupported. Paths are segment lists relative to the jail root; the target directory is the segment "T".

func verifPathElems(p string) []string // engine: splits at '/', drops empty and "." elements; leading "/" kept as "/"

var verifErrRefused = errors.New("verif: operation refused by the file system")

// what a walk is told when a component of its root's path is a regular file
var verifErrNotDir error = syscall.ENOTDIR

type vEntry struct {
	elems []string
	kind  int // 1 directory, 2 regular file
}

var (
	vfs         []vEntry
	vfsMut      int  // mutating operations performed after vfsSeal
	vfsOutside  int  // mutating operations whose path is not lexically inside the target
	vfsLongName bool   // model ENAMETOOLONG: the designated over-long element is refused by every operation
	vfsLongElem string // that element (an opaque name; natively longer than 255 bytes)
)

// vfsLinks: entries that are symbolic links to a directory which holds what the model lists beneath them. Everything
// that follows links (Stat, MkdirAll, Create, a walk that starts at the link) sees a directory; a walk that meets the
// link below its root, or examines its root with Lstat (filepath.WalkDir), sees a non-directory and does not descend.
var vfsLinks [][]string

func vfsMakeLink(rel []string) { vfsLinks = append(vfsLinks, append([]string{"T"}, rel...)) }

func vfsIsLink(p string) bool {
	e := verifPathElems(p)
	for _, l := range vfsLinks {
		if sameElems(l, e) {
			return true
		}
	}
	return false
}

func vfsReset() {
	vfsLinks = nil
	vfs = []vEntry{{elems: []string{"T"}, kind: 1}}
	vfsMut, vfsOutside, vfsLongName, vfsLongElem = 0, 0, false, ""
}

func vfsTarget() string { return "T" }

func vfsRemoveTarget() { vfs = nil }

// vfsAdd puts an entry (relative to the target) into the pre-state. Kinds: 1 directory, 2 regular file, 4 a dangling
// symbolic link (it points to a path outside the target at which nothing exists).
func vfsAdd(rel []string, kind int) {
	vfs = append(vfs, vEntry{elems: append([]string{"T"}, rel...), kind: kind})
}

func vfsSeal() { vfsMut, vfsOutside = 0, 0 }

func vfsTouched() int        { return vfsMut }
func vfsTouchedOutside() int { return vfsOutside }


func hasPrefixElems(a, pre []string) bool {
	return len(a) >= len(pre) && sameElems(a[:len(pre)], pre)
}

func vfsFind(e []string) int {
	for i := range vfs {
		if sameElems(vfs[i].elems, e) {
			return i
		}
	}
	return -1
}

// vfsKind: 0 absent, 1 directory, 2 file; rel is relative to the target.
func vfsKind(rel []string) int {
	i := vfsFind(append([]string{"T"}, rel...))
	if i < 0 {
		return 0
	}
	return vfs[i].kind
}

// vfsCount: number of entries strictly below the target.
func vfsCount() int {
	n := 0
	for _, e := range vfs {
		if len(e.elems) > 1 && e.elems[0] == "T" {
			n++
		}
	}
	return n
}

func vfsTooLong(e []string) bool {
	if !vfsLongName {
		return false
	}
	for _, x := range e {
		if x == vfsLongElem {
			return true
		}
	}
	return false
}

// vfsTargetAsFile turns the target into a regular file (pre-state).
func vfsTargetAsFile() { vfs = []vEntry{{elems: []string{"T"}, kind: 2}} }

// vfsTargetAsDangling turns the target into a symbolic link that points to nothing (pre-state).
func vfsTargetAsDangling() { vfs = []vEntry{{elems: []string{"T"}, kind: 4}} }

func vfsInside(e []string) bool {
	if len(e) == 0 || e[0] != "T" {
		return false
	}
	for _, l := range vfsLinks {
		if len(e) > len(l) && hasPrefixElems(e, l) {
			return false // below a symbolic link: wherever the link points, it is not under the target
		}
	}
	for _, x := range e {
		if x == ".." {
			return false
		}
	}
	return true
}

// ---- called by the engine's os.* stubs ----

// vfsStat: 0 does not exist, 1 directory, 2 file, 3 error other than "does not exist".
func vfsStat(p string) int {
	e := verifPathElems(p)
	if vfsTooLong(e) {
		return 3
	}
	for n := 1; n < len(e); n++ {
		if i := vfsFind(e[:n]); i >= 0 && vfs[i].kind == 2 {
			return 3 // a path component is a file: ENOTDIR
		} else if i >= 0 && vfs[i].kind == 4 {
			return 0 // a path component is a dangling link: ENOENT
		}
	}
	i := vfsFind(e)
	if i < 0 || vfs[i].kind == 4 {
		return 0 // (Stat follows a dangling link to nothing)
	}
	return vfs[i].kind
}

// vfsLstat: as vfsStat, but the last element is not followed: a dangling link exists (as something that is no directory)
func vfsLstat(p string) int {
	e := verifPathElems(p)
	if i := vfsFind(e); i >= 0 && vfs[i].kind == 4 && !vfsTooLong(e) {
		return 2
	}
	return vfsStat(p)
}

func vfsMkdirAll(p string) bool { return vfsMkdirAllK(p) == 0 }

// vfsMkdirAllK: os.MkdirAll. 0 done, 1 refused, 2 refused with "file exists" (a path element is a dangling link: Stat
// does not see it, Mkdir meets it)
func vfsMkdirAllK(p string) int {
	e := verifPathElems(p)
	if !vfsInside(e) {
		vfsOutside++
		vfsMut++
	}
	if vfsTooLong(e) {
		return 1
	}
	for n := 1; n <= len(e); n++ {
		i := vfsFind(e[:n])
		if i < 0 {
			// only a directory that is actually made changes the file system (MkdirAll of an existing one does not)
			vfsMut++
			vfs = append(vfs, vEntry{elems: append([]string{}, e[:n]...), kind: 1})
		} else if vfs[i].kind == 4 {
			return 2
		} else if vfs[i].kind != 1 {
			return 1
		}
	}
	return 0
}

// vfsCreateExcl: O_CREATE|O_EXCL. 0 created, 1 the path exists already (whatever it is), 2 refused (no parent, ...)
func vfsCreateExcl(p string) int {
	e := verifPathElems(p)
	if !vfsInside(e) {
		vfsOutside++
		vfsMut++
	}
	if len(e) == 0 || vfsTooLong(e) {
		return 2
	}
	pi := vfsFind(e[:len(e)-1])
	if pi < 0 || vfs[pi].kind != 1 {
		return 2
	}
	if vfsFind(e) >= 0 {
		return 1
	}
	vfsMut++
	vfs = append(vfs, vEntry{elems: append([]string{}, e...), kind: 2})
	return 0
}

// vfsMkdir: os.Mkdir. 0 made, 1 exists already, 2 refused (no parent, parent is a file, ...)
func vfsMkdir(p string) int {
	e := verifPathElems(p)
	if !vfsInside(e) {
		vfsOutside++
		vfsMut++
	}
	if len(e) == 0 || vfsTooLong(e) {
		return 2
	}
	if len(e) > 1 {
		pi := vfsFind(e[:len(e)-1])
		if pi < 0 || vfs[pi].kind != 1 {
			return 2
		}
	}
	if vfsFind(e) >= 0 {
		return 1
	}
	vfsMut++
	vfs = append(vfs, vEntry{elems: append([]string{}, e...), kind: 1})
	return 0
}

// vfsRemove: os.Remove (all == false: only a file or an empty directory) / os.RemoveAll. true: done (or nothing there
// for RemoveAll); every entry that goes away is a mutation.
func vfsRemove(p string, all bool) bool {
	e := verifPathElems(p)
	if !vfsInside(e) {
		vfsOutside++
		vfsMut++
	}
	i := vfsFind(e)
	if i < 0 {
		return all
	}
	var keep []vEntry
	removed := 0
	for _, x := range vfs {
		if len(x.elems) >= len(e) && hasPrefixElems(x.elems, e) {
			removed++
			continue
		}
		keep = append(keep, x)
	}
	if !all && removed > 1 {
		return false // directory not empty
	}
	vfs = keep
	vfsMut += removed
	return true
}

func vfsCreate(p string) bool {
	e := verifPathElems(p)
	vfsMut++
	if !vfsInside(e) {
		vfsOutside++
	}
	if len(e) == 0 || vfsTooLong(e) {
		return false
	}
	pi := vfsFind(e[:len(e)-1])
	if pi < 0 || vfs[pi].kind != 1 {
		return false
	}
	i := vfsFind(e)
	if i >= 0 && vfs[i].kind == 4 {
		// O_CREATE follows a dangling link: the file appears where the link points, which is not under the target
		vfsOutside++
		return true
	}
	if i >= 0 {
		return vfs[i].kind == 2 // truncation of an existing file (counted as a mutation above)
	}
	vfs = append(vfs, vEntry{elems: append([]string{}, e...), kind: 2})
	return true
}

func joinElems(e []string) string {
	s := ""
	for i, x := range e {
		if i > 0 {
			s += "/"
		}
		s += x
	}
	return s
}

// vfsList: what fs.WalkDir(os.DirFS(dir), ".") visits: "." first, then the entries below dir, parents before
// children. nil: dir does not exist; a one-element list {"!file"}: dir is a regular file.
func vfsList(dir string) []string {
	d := verifPathElems(dir)
	i := vfsFind(d)
	if i < 0 || vfs[i].kind == 4 {
		return nil
	}
	if vfs[i].kind == 2 {
		return []string{"!file"}
	}
	out := []string{"."}
	for _, e := range vfs {
		if len(e.elems) > len(d) && hasPrefixElems(e.elems, d) {
			out = append(out, joinElems(e.elems[len(d):]))
		}
	}
	return out
}

// vfsReadDir: the names (kinds: vfsReadDirKinds) of the direct entries of a directory, in the model's order; nil if
// the directory does not exist or is a file
func vfsReadDir(dir string) []string {
	d := verifPathElems(dir)
	i := vfsFind(d)
	if i < 0 || vfs[i].kind != 1 {
		return nil
	}
	out := []string{}
	for _, e := range vfs {
		if len(e.elems) == len(d)+1 && hasPrefixElems(e.elems, d) {
			out = append(out, e.elems[len(d)])
		}
	}
	return out
}

func vfsReadDirKinds(dir string) []int {
	d := verifPathElems(dir)
	var out []int
	for _, e := range vfs {
		if len(e.elems) == len(d)+1 && hasPrefixElems(e.elems, d) {
			k := e.kind
			for _, l := range vfsLinks {
				if sameElems(l, e.elems) {
					k = 3 // a symbolic link: not a directory for a DirEntry
				}
			}
			out = append(out, k)
		}
	}
	return out
}

// vfsListKinds: the kinds (1 directory, 2 file) of the entries vfsList returns, in the same order.
func vfsListKinds(dir string) []int {
	d := verifPathElems(dir)
	i := vfsFind(d)
	if i < 0 || vfs[i].kind == 2 || vfs[i].kind == 4 {
		return nil
	}
	out := []int{1}
	for _, e := range vfs {
		if len(e.elems) > len(d) && hasPrefixElems(e.elems, d) {
			out = append(out, e.kind)
		}
	}
	return out
}
