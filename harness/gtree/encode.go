//go:build verif

package gtree

// rec is the {value, children} record a tree is expected to encode to.
type rec struct {
	name     string
	children []*rec
}

func recOfM(m *mNode) *rec {
	r := &rec{name: m.name}
	for _, c := range m.children {
		r.children = append(r.children, recOfM(c))
	}
	return r
}

func recOfV(nodes []vNode, i int) *rec {
	r := &rec{name: nodes[i].name}
	for _, c := range nodes[i].children {
		r.children = append(r.children, recOfV(nodes, c))
	}
	return r
}

func recsOfForest(nodes []vNode, roots []int) []*rec {
	var out []*rec
	for _, r := range roots {
		out = append(out, recOfV(nodes, r))
	}
	return out
}

func recText(r *rec) string {
	out := "{" + r.name + "["
	for i, c := range r.children {
		if i > 0 {
			out += " "
		}
		out += recText(c)
	}
	return out + "]}"
}

const (
	encJSON = 1
	encYAML = 2
	encTOML = 3
)

func encOption(kind int) Option {
	switch kind {
	case encJSON:
		return WithEncodeJSON()
	case encYAML:
		return WithEncodeYAML()
	case encTOML:
		return WithEncodeTOML()
	}
	return nil
}

// c10Perm: out is the concatenation of the blocks in some order (each block whole and contiguous).
func c10Perm(out string, blocks []string) bool {
	used := make([]bool, len(blocks))
	return c10PermRec(out, "", blocks, used, 0)
}

func c10PermRec(out, acc string, blocks []string, used []bool, k int) bool {
	if k == len(blocks) {
		return out == acc
	}
	for i := range blocks {
		if used[i] {
			continue
		}
		used[i] = true
		if c10PermRec(out, acc+blocks[i], blocks, used, k+1) {
			return true
		}
		used[i] = false
	}
	return false
}

