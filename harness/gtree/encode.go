//go:build verif

package gtree

// rec is the {value, children} record a tree is expected to encode to.
type rec struct {
	name     string
	children []*rec
}

func recOfM(m *mNode) *rec {
	r := &rec{name: m.name}
	for _, c := range m.children {
		r.children = append(r.children, recOfM(c))
	}
	return r
}

func recOfV(nodes []vNode, i int) *rec {
	r := &rec{name: nodes[i].name}
	for _, c := range nodes[i].children {
		r.children = append(r.children, recOfV(nodes, c))
	}
	return r
}

func recsOfForest(nodes []vNode, roots []int) []*rec {
	var out []*rec
	for _, r := range roots {
		out = append(out, recOfV(nodes, r))
	}
	return out
}

func recText(r *rec) string {
	out := "{" + r.name + "["
	for i, c := range r.children {
		if i > 0 {
			out += " "
		}
		out += recText(c)
	}
	return out + "]}"
}

const (
	encJSON = 1
	encYAML = 2
	encTOML = 3
)

func encOption(kind int) Option {
	switch kind {
	case encJSON:
		return WithEncodeJSON()
	case encYAML:
		return WithEncodeYAML()
	case encTOML:
		return WithEncodeTOML()
	}
	return nil
}
