//go:build verif

package gtree

import (
	"context"
	"strings"

)

func init() {
	verifRegister("VerifC10", VerifC10)
	verifRegister("VerifC10Units", VerifC10Units)
	verifRegister("VerifC10Exists", VerifC10Exists)
	verifRegister("VerifC10Reuse", VerifC10Reuse)
}

// c10MatchBlocks: the written lines (one Write per line) are the blocks' lines, blocks in any order, each whole.
func c10MatchBlocks(chunks []string, blocks [][]string) bool {
	used := make([]bool, len(blocks))
	pos := 0
	for pos < len(chunks) {
		found := false
		for i, b := range blocks {
			if used[i] || pos+len(b) > len(chunks) {
				continue
			}
			same := true
			for k := range b {
				if chunks[pos+k] != b[k] {
					same = false
					break
				}
			}
			if same {
				used[i], found = true, true
				pos += len(b)
				break
			}
		}
		if !found {
			return false
		}
	}
	for _, u := range used {
		if !u {
			return false
		}
	}
	return true
}

func c10BlockLines(nodes []vNode, i int, out *[]string) {
	if nodes[i].parent < 0 {
		*out = append(*out, nodes[i].name+"\n")
	} else {
		*out = append(*out, specBranch(nodes, i, dLD, dLI, dMD, dMI)+" "+nodes[i].name+"\n")
	}
	for _, c := range nodes[i].children {
		c10BlockLines(nodes, c, out)
	}
}

// VerifC10Reuse: the channel hand-over gives blocks to the ten workers of a stage in turn, so state that a worker
// keeps from one block to the next only matters from the 11th block on. Ten concrete three-level filler roots are
// followed by an 11th block that begins with a concrete root and child and a symbolic tail document of n rows (same
// family as VerifC10, list-style roots): same accept/reject
// decision in both modes, and the massive text output consists of the same whole blocks.
func VerifC10Reuse() {
	n := verifN()
	var rows []string
	var lines []vLine
	for i := 0; i < 10; i++ {
		f := "f" + string(rune('0'+i))
		rows = append(rows, "- "+f, "  - g", "    - h")
		lines = append(lines, vLine{0, f}, vLine{1, "g"}, vLine{2, "h"})
	}
	// the 11th block starts with a concrete root and child (so that its indentation unit is known and a row nested
	// too deep can follow at once); the symbolic tail continues that block or starts further ones
	rows = append(rows, "- t", "  - u")
	lines = append(lines, vLine{0, "t"}, vLine{1, "u"})
	c10HasChild0 = true
	doc := c10Document(n, func(l string) string {
		nm := verifName(l)
		verifAssume(!strings.HasPrefix(nm, "f") && nm != "t" && nm != "u")
		return nm
	}, true, 1)
	verifAssume(!doc.sharp)
	rows = append(rows, doc.rows...)
	lines = append(lines, doc.lines...)
	w1, w2 := newVerifWriter(), newVerifWriter()
	verifContext("C10.reuse")
	e1 := OutputFromMarkdown(w1, &verifReader{lines: rows})
	e2 := OutputFromMarkdown(w2, &verifReader{lines: rows}, WithMassive(context.Background()))
	verifAssert((e1 != nil) == doc.bad, "C10.reuse.simple")
	verifAssert((e1 == nil) == (e2 == nil), "C10.reuse.err")
	if e1 == nil && e2 == nil {
		nodes, roots := specForest(lines)
		var blocks [][]string
		for _, r := range roots {
			var b []string
			c10BlockLines(nodes, r, &b)
			blocks = append(blocks, b)
		}
		verifAssert(c10MatchBlocks(w2.chunks, blocks), "C10.reuse.same")
	}
	verifAssert(verifQuiesce() == 0, "C10.noleak")
	verifReach("C10.reuse.end")
}

// c10HasChild0: the rows in front of the document already gave the current root block an indented row (set by the
// caller for one c10Document call)
var c10HasChild0 bool

type c10Doc struct {
	rows   []string
	lines  []vLine // item rows in order (depth relative to the roots)
	bad    bool    // contains a malformed row or an ill-nested row
	sharp  bool
	nroots int
}

// c10Document draws a document of n rows from the family of the property: roots as list items or as # headings
// (whole document), children indented by two spaces, optionally one blank / whitespace-only row (leading or
// inner) and optionally one malformed row (no bullet / empty text / a row nested two levels too deep).
// Rows carry their notation bytes as a literal prefix because the splitter looks at the first byte.
func c10Document(n int, name func(string) string, allowBad bool, prev0 int) *c10Doc {
	return c10DocumentB(n, name, allowBad, prev0, false)
}

// bullets: list-item roots only, every root row with its own list symbol (-, * or +), no blank and no malformed row.
func c10DocumentB(n int, name func(string) string, allowBad bool, prev0 int, bullets bool) *c10Doc {
	d := &c10Doc{}
	blankAt, badAt := n, n
	if !bullets {
		d.sharp = verifFlag("sharp")
		blankAt = int(verifChoose("blankAt", 0, uint(n))) // n: none
		if allowBad {
			badAt = int(verifChoose("badAt", 0, uint(n)))
		}
	}
	prev := prev0 // depth of the item row before the document (-1: none)
	blockHasChild := c10HasChild0
	c10HasChild0 = false
	ind := func(k int) string { return c10Rep("  ", k) }
	for i := 0; i < n; i++ {
		if i == blankAt {
			d.rows = append(d.rows, []string{"", "  ", "\t"}[verifChoose("blankKind", 0, 2)])
		}
		if i == badAt {
			d.bad = true
			switch verifChoose("badKind", 0, 2) {
			case 0: // no bullet in the first column
				d.rows = append(d.rows, verifRow("x", 2, 0, name("name")))
			case 1: // empty item text
				d.rows = append(d.rows, verifRow("-", 3, 0, ""))
			case 2: // nested two levels deeper than the row before
				// only once the current root block has an indented row: the first indented row of a document (simple
				// mode) resp. of a block (massive mode, one parser per block) defines the unit and is at depth 1 by
				// definition, whatever its width
				if !blockHasChild {
					verifAssume(false)
				}
				k := prev + 2
				nm := name("name")
				if d.sharp {
					d.rows = append(d.rows, verifRow(ind(k-1)+"- ", 0, uint(k), nm))
				} else {
					d.rows = append(d.rows, verifRow(ind(k)+"- ", 0, uint(k), nm))
				}
			}
			continue
		}
		var dep int
		if prev >= 0 {
			dep = int(verifChoose("depth", 0, uint(prev+1)))
		}
		nm := name("name")
		switch {
		case dep == 0 && d.sharp:
			// headings are trimmed on both sides: such names are notation
			verifAssume(!strings.HasPrefix(nm, " ") && !strings.HasSuffix(nm, " ") && !strings.HasPrefix(nm, "#"))
			d.rows = append(d.rows, verifRow("# ", 0, 0, nm))
		case dep == 0 && bullets:
			d.rows = append(d.rows, verifRow([]string{"- ", "* ", "+ "}[verifChoose("bullet", 0, 2)], 0, 0, nm))
		case dep == 0:
			d.rows = append(d.rows, verifRow("- ", 0, 0, nm))
		case d.sharp:
			d.rows = append(d.rows, verifRow(ind(dep-1)+"- ", 0, uint(dep), nm))
		default:
			d.rows = append(d.rows, verifRow(ind(dep)+"- ", 0, uint(dep), nm))
		}
		if dep == 0 {
			d.nroots++
			blockHasChild = false
		} else if !d.sharp || dep >= 2 {
			// a row that is really indented (under # roots the first list level is not): the unit is known now
			blockHasChild = true
		}
		d.lines = append(d.lines, vLine{uint(dep), nm})
		prev = dep
	}
	return d
}

func c10Rep(c string, n int) string {
	s := ""
	for i := 0; i < n; i++ {
		s += c
	}
	return s
}

// VerifC10: every document of the family through the simple and the massive route of the same operation:
// same accept/reject decision; when accepted, the massive result is the simple result up to the order of roots
// (text, JSON records, dry-run report: a permutation of whole per-root blocks; walk: same rows, order kept inside
// a root; mkdir: same file-system state; verify: same verdict).
func VerifC10() {
	n := verifN() % 10
	// verifN() >= 100: the bullet family (every root row with its own list symbol), text output only
	doc := c10DocumentB(n, verifName, true, -1, verifN() >= 100)
	mode := uint(0) // verifN() >= 10: text output only (used for the additional scheduling policies)
	if verifN() < 10 {
		mode = verifChoose("mode", 0, 5)
	}
	nodes, roots := []vNode(nil), []int(nil)
	if !doc.bad {
		nodes, roots = specForest(doc.lines)
	}
	if mode >= 4 {
		for i, r := range roots {
			for j := 0; j < i; j++ {
				verifAssume(nodes[r].name != nodes[roots[j]].name)
			}
		}
	}
	ctx := context.Background()
	var e1, e2 error
	ok := true
	verifContext("C10.run")
	switch mode {
	case 0, 1, 2: // text, JSON or YAML records, dry-run report (with an opaque extension)
		var opts []Option
		enc := encJSON
		var exts []string
		if mode == 1 {
			if verifFlag("yaml") {
				enc = encYAML
			}
			opts = append(opts, encOption(enc))
		}
		if mode == 2 {
			exts = []string{verifStr("ext")}
			opts = append(opts, WithDryRun(), WithFileExtensions(exts))
		}
		w1, w2 := newVerifWriter(), newVerifWriter()
		e1 = OutputFromMarkdown(w1, &verifReader{lines: doc.rows}, opts...)
		e2 = OutputFromMarkdown(w2, &verifReader{lines: doc.rows}, append(opts, WithMassive(ctx))...)
		if e1 == nil && e2 == nil {
			var blocks []string
			for _, r := range roots {
				switch mode {
				case 0:
					blocks = append(blocks, specRender(nodes, r, dLD, dLI, dMD, dMI))
				case 2:
					dirs, fls := 0, 0
					for i := range nodes {
						if c08RootOf(nodes, i) == r {
							if wantKind(len(nodes[i].children) == 0, nodes[i].name, exts) == 2 {
								fls++
							} else {
								dirs++
							}
						}
					}
					blocks = append(blocks, specRender(nodes, r, dLD, dLI, dMD, dMI)+"\n"+c09Itoa(dirs)+" directories, "+c09Itoa(fls)+" files\n")
				}
			}
			if mode == 1 {
				ok = encMatchesAnyOrder(enc, w2.out, recsOfForest(nodes, roots)) && encMatches(enc, w1.out, recsOfForest(nodes, roots))
			} else {
				verifObserve("simple", w1.out)
				ok = c10Perm(w2.out, blocks) && c10Perm(w1.out, blocks)
			}
		}
	case 3: // walk: per-root row sequences
		var t1, t2 []string
		e1 = WalkFromMarkdown(&verifReader{lines: doc.rows}, func(wn *WalkerNode) error { t1 = append(t1, wn.Row()); return nil })
		e2 = WalkFromMarkdown(&verifReader{lines: doc.rows}, func(wn *WalkerNode) error { t2 = append(t2, wn.Row()); return nil }, WithMassive(ctx))
		if e1 == nil && e2 == nil {
			var blocks []string
			for _, r := range roots {
				blocks = append(blocks, specRender(nodes, r, dLD, dLI, dMD, dMI))
			}
			s1, s2 := "", ""
			for _, x := range t1 {
				s1 += x + "\n"
			}
			for _, x := range t2 {
				s2 += x + "\n"
			}
			ok = c10Perm(s1, blocks) && c10Perm(s2, blocks)
		}
	case 4: // mkdir: same file-system state
		exts := []string{verifStr("ext")}
		notarget := verifFlag("notarget") // the target directory itself is still to be made (both modes make it)
		vfsReset()
		if notarget {
			vfsRemoveTarget()
		}
		vfsSeal()
		e1 = MkdirFromMarkdown(&verifReader{lines: doc.rows}, WithTargetDir(vfsTarget()), WithFileExtensions(exts))
		c1 := vfsCount()
		k1 := make([]int, len(nodes))
		for i := range nodes {
			k1[i] = vfsKind(nodeRel(nodes, i))
		}
		vfsReset()
		if notarget {
			vfsRemoveTarget()
		}
		vfsSeal()
		e2 = MkdirFromMarkdown(&verifReader{lines: doc.rows}, WithTargetDir(vfsTarget()), WithFileExtensions(exts), WithMassive(ctx))
		if e1 == nil && e2 == nil {
			ok = vfsCount() == c1
			for i := range nodes {
				if vfsKind(nodeRel(nodes, i)) != k1[i] || k1[i] != wantKind(len(nodes[i].children) == 0, nodes[i].name, exts) {
					ok = false
				}
			}
		}
	case 5: // verify: same verdict against a state in which a solver-chosen node is missing (or none)
		vfsReset()
		miss := -1
		if !doc.bad {
			miss = int(verifChoose("missing", 0, uint(len(nodes)))) - 1
			for i := range nodes {
				under := false
				for a := i; a >= 0; a = nodes[a].parent {
					if a == miss {
						under = true
					}
				}
				if !under {
					vfsAdd(nodeRel(nodes, i), 1)
				}
			}
		}
		vfsSeal()
		e1 = VerifyFromMarkdown(&verifReader{lines: doc.rows}, WithTargetDir(vfsTarget()))
		e2 = VerifyFromMarkdown(&verifReader{lines: doc.rows}, WithTargetDir(vfsTarget()), WithMassive(ctx))
		if !doc.bad {
			ok = (e1 == nil) == (miss < 0)
		}
	}
	cls := []string{"/text", "/json", "/dryrun", "/walk", "/mkdir", "/verify"}[mode]
	verifAssert((e1 == nil) == (e2 == nil), "C10.err"+cls)
	verifAssert((e1 != nil) == doc.bad || mode == 5, "C10.simple"+cls)
	verifAssert(ok, "C10.same"+cls)
	verifAssert(verifQuiesce() == 0, "C10.noleak")
	verifReach("C10.end")
}

// VerifC10Units: byte level, real parser. Two roots whose children are indented by i resp. j blanks (i, j
// solver-chosen in 1..4): the simple mode learns the unit once per document, so the massive mode must make the
// same accept/reject decision.
func VerifC10Units() {
	i := int(verifChoose("i", 1, 4))
	j := int(verifChoose("j", 1, 4))
	rows := []string{"- a", c10Rep(" ", i) + "- b", "- c", c10Rep(" ", j) + "- d"}
	w1, w2 := newVerifWriter(), newVerifWriter()
	verifContext("C10.units")
	e1 := OutputFromMarkdown(w1, &verifReader{lines: rows})
	e2 := OutputFromMarkdown(w2, &verifReader{lines: rows}, WithMassive(context.Background()))
	cls := "/same-unit"
	if i != j {
		cls = "/mixed-units"
	}
	verifAssert((e1 == nil) == (e2 == nil), "C10.err.units"+cls)
	verifAssert(verifQuiesce() == 0, "C10.noleak")
	verifReach("C10.units.end")
}

// VerifC10Exists: mkdir of two distinct roots when one of them already exists: the simple mode refuses before
// creating anything; the massive mode must leave the same file system and report an error as well.
func VerifC10Exists() {
	a, b := verifName("name"), verifName("name")
	verifAssume(a != b)
	rows := []string{verifRow("- ", 0, 0, a), verifRow("- ", 0, 0, b)}
	existing := a
	if verifFlag("second") {
		existing = b
	}
	vfsReset()
	vfsAdd([]string{existing}, 1)
	vfsSeal()
	verifContext("C10.exists")
	e1 := MkdirFromMarkdown(&verifReader{lines: rows}, WithTargetDir(vfsTarget()))
	t1 := vfsTouched()
	vfsReset()
	vfsAdd([]string{existing}, 1)
	vfsSeal()
	e2 := MkdirFromMarkdown(&verifReader{lines: rows}, WithTargetDir(vfsTarget()), WithMassive(context.Background()))
	t2 := vfsTouched()
	verifAssert(e1 == ErrExistPath && t1 == 0, "C10.exists.simple")
	verifAssert(e2 != nil, "C10.exists.err")
	verifAssert(t2 == 0, "C10.exists.fs/partial")
	verifAssert(verifQuiesce() == 0, "C10.noleak")
	verifReach("C10.exists.end")
}

func init() {
	verifRegister("VerifC10Big", VerifC10Big)
}

// VerifC10Big: sizes instead of spellings. Two or three root blocks whose printed text exceeds 4096 bytes each (a child
// with a 5000-byte name: larger than the default buffer of a bufio.Writer), massive text output under a write-yield
// policy: the output is a permutation of the blocks the simple mode prints for each root, every block whole and
// contiguous, and nothing is left behind. (Whatever buffers sit between a worker and the caller's writer, a block must
// not reach the writer in pieces that another worker's pieces can come between.)
func VerifC10Big() {
	k := 2 + int(verifChoose("roots", 0, 1))
	var rows, blocks []string
	for i := 0; i < k; i++ {
		l := string(rune('a' + i))
		r := []string{"- r" + l, "  - " + c10Rep(l, 5000), "  - z"}
		rows = append(rows, r...)
		w := newVerifWriter()
		err := OutputFromMarkdown(w, &verifReader{lines: r})
		verifAssert(err == nil, "C10.big.simple")
		blocks = append(blocks, w.out)
	}
	w := newVerifWriter()
	verifContext("C10.big")
	err := OutputFromMarkdown(w, &verifReader{lines: rows}, WithMassive(context.Background()))
	verifAssert(err == nil, "C10.big.nil")
	verifAssert(c10Perm(w.out, blocks), "C10.big.same")
	verifAssert(verifQuiesce() == 0, "C10.noleak")
	verifReach("C10.big.end")
}
