//go:build verif

package gtree

import "strings"

func init() {
	verifRegister("VerifC06", VerifC06)
	verifRegister("VerifC06Root", VerifC06Root)
	verifRegister("VerifC06Fault", VerifC06Fault)
	verifRegister("VerifC06Dup", VerifC06Dup)
}

// VerifC06Dup: forests whose root names may coincide (two root blocks of one name are the same directory, or the
// same file, or an impossible demand when one occurrence is a file and the other one has children). nil is
// returned only if every node path exists with the kind the file rule gives it -- so an impossible demand must be an
// error -- and the entries made are exactly the distinct node paths; consistent demands succeed.
func VerifC06Dup() {
	n := verifN() % 10
	lines, rows := wellFormedLines(n, verifName)
	nodes, roots := specForest(lines)
	verifAssume(len(roots) >= 2)
	c06MaxExts = 2
	if verifN()/10 == 1 {
		verifAssume(len(roots) >= 3) // (the wide variant: many roots, few levels, at most one extension)
		c06MaxExts = 1
	}
	exts := c06Exts()
	c06MaxExts = 2
	vfsReset()
	vfsSeal()
	verifContext("C06.dup")
	err := MkdirFromMarkdown(&verifReader{lines: rows}, WithTargetDir(vfsTarget()), WithFileExtensions(exts))
	rels := make([][]string, len(nodes))
	kinds := make([]int, len(nodes))
	for i := range nodes {
		rels[i] = nodeRel(nodes, i)
		kinds[i] = wantKind(len(nodes[i].children) == 0, nodes[i].name, exts)
	}
	// a file can have nothing beneath it and cannot be a directory as well
	conflict := false
	distinct := 0
	for i := range nodes {
		first := true
		for j := range nodes {
			if i == j {
				continue
			}
			if sameElems(rels[i], rels[j]) {
				if j < i {
					first = false
				}
				if kinds[i] != kinds[j] {
					conflict = true
				}
			}
		}
		if first {
			distinct++
		}
	}
	if err == nil {
		for i := range nodes {
			verifAssert(vfsKind(rels[i]) == kinds[i], "C06.dup.kind")
		}
		verifAssert(vfsCount() == distinct, "C06.dup.count")
	}
	if !conflict {
		verifAssert(err == nil, "C06.dup.nil")
	}
	verifAssert(vfsTouchedOutside() == 0, "C06.dup.inside")
	verifReach("C06.dup.end")
}

func mRel(m *mNode) []string {
	if m.parent == nil {
		return []string{m.name}
	}
	return append(mRel(m.parent), m.name)
}

// wantKind: a childless node whose name ends with a configured extension is a file (2), everything else a directory (1).
func wantKind(childless bool, name string, exts []string) int {
	if !childless {
		return 1
	}
	for _, e := range exts {
		if strings.HasSuffix(name, e) {
			return 2
		}
	}
	return 1
}

// c06MaxExts: how many opaque extensions c06Exts draws at most (2 unless a wide job lowers it)
var c06MaxExts uint = 2

func c06Exts() []string {
	var exts []string
	k := int(verifChoose("nexts", 0, c06MaxExts))
	for i := 0; i < k; i++ {
		exts = append(exts, verifStr("ext"))
	}
	return exts
}

// c06PreState: target present or missing, optionally one unrelated entry under the target; returns its name ("" if none).
func c06PreState(rootNames []string) (extra string, extraKind int) {
	vfsReset()
	switch verifChoose("pre", 0, 2) {
	case 1:
		vfsRemoveTarget()
	case 2:
		extra = verifName("extra")
		for _, r := range rootNames {
			verifAssume(extra != r)
		}
		extraKind = int(verifChoose("extraKind", 1, 2))
		vfsAdd([]string{extra}, extraKind)
	}
	return
}

// VerifC06: MkdirFromMarkdown (simple mode) into a target in which no root exists: afterwards the entries under the
// target are exactly the node paths plus what was there before, with kinds by the file rule; if a root pre-exists
// (as file or directory) the call fails with ErrExistPath and nothing changes.
func VerifC06() {
	n := verifN()
	lines, rows := wellFormedLines(n, verifName)
	nodes, roots := specForest(lines)
	var rootNames []string
	for i, r := range roots {
		for j := 0; j < i; j++ {
			verifAssume(nodes[r].name != nodes[roots[j]].name)
		}
		rootNames = append(rootNames, nodes[r].name)
	}
	exts := c06Exts()
	extra, extraKind := c06PreState(rootNames)
	existing := -1
	if extra == "" && verifFlag("rootExists") {
		// some root already exists (as a directory or as a file); only when the target exists
		existing = int(verifChoose("which", 0, uint(len(roots)-1)))
		// the root exists already: as a directory, as a regular file, as a symbolic link to a directory, or as a
		// symbolic link to nothing (4)
		switch ek := int(verifChoose("existKind", 1, 4)); ek {
		case 3:
			vfsAdd([]string{rootNames[existing]}, 1)
			vfsMakeLink([]string{rootNames[existing]})
		default:
			vfsAdd([]string{rootNames[existing]}, ek)
		}
	}
	vfsSeal()
	verifContext("C06.mkdir")
	// the target directory as callers write it: plain, with a trailing separator, or with a './' in front
	target := vfsTarget()
	switch verifChoose("targetSpelling", 0, 2) {
	case 1:
		target += "/"
	case 2:
		if !verifNative() {
			target = "./" + target // (natively the target is an absolute path)
		}
	}
	err := MkdirFromMarkdown(&verifReader{lines: rows}, WithTargetDir(target), WithFileExtensions(exts))
	if existing >= 0 {
		verifAssert(err == ErrExistPath, "C06.exists.err")
		verifAssert(vfsTouched() == 0, "C06.exists.unchanged")
		verifReach("C06.exists.end")
		return
	}
	verifAssert(err == nil, "C06.nil")
	extraN := 0
	if extra != "" {
		extraN = 1
		verifAssert(vfsKind([]string{extra}) == extraKind, "C06.untouched")
	}
	verifAssert(vfsCount() == len(nodes)+extraN, "C06.exact.count")
	for i := range nodes {
		want := wantKind(len(nodes[i].children) == 0, nodes[i].name, exts)
		verifAssert(vfsKind(nodeRel(nodes, i)) == want, "C06.exact.kind")
	}
	verifAssert(vfsTouchedOutside() == 0, "C06.inside")
	verifReach("C06.end")
}

// VerifC06Root: the same for MkdirFromRoot (and its deprecated alias) on a program of n nodes.
func VerifC06Root() {
	n := verifN()
	root, all := buildProgram(n-1, verifName, "C06.add")
	exts := c06Exts()
	extra, extraKind := c06PreState([]string{root.name})
	exists := false
	if extra == "" && verifFlag("rootExists") {
		exists = true
		ek := int(verifChoose("existKind", 1, 3))
		if ek == 3 {
			ek = 4 // a symbolic link to nothing
		}
		vfsAdd([]string{root.name}, ek)
	}
	vfsSeal()
	verifContext("C06.mkdirroot")
	var err error
	if verifFlag("alias") {
		err = MkdirProgrammably(root.real, WithTargetDir(vfsTarget()), WithFileExtensions(exts))
	} else {
		err = MkdirFromRoot(root.real, WithTargetDir(vfsTarget()), WithFileExtensions(exts))
	}
	if exists {
		verifAssert(err == ErrExistPath, "C06.root.exists.err")
		verifAssert(vfsTouched() == 0, "C06.root.exists.unchanged")
		verifReach("C06.root.exists.end")
		return
	}
	verifAssert(err == nil, "C06.root.nil")
	extraN := 0
	if extra != "" {
		extraN = 1
		verifAssert(vfsKind([]string{extra}) == extraKind, "C06.root.untouched")
	}
	verifAssert(vfsCount() == len(all)+extraN, "C06.root.exact.count")
	for _, m := range all {
		want := wantKind(len(m.children) == 0, m.name, exts)
		verifAssert(vfsKind(mRel(m)) == want, "C06.root.exact.kind")
	}
	verifReach("C06.root.end")
}

// VerifC06Fault: the file system refuses operations. (a) one node (solver-chosen) carries a name of more than 255
// bytes, which every operation touching it refuses with ENAMETOOLONG (model: an element equal to that name is
// refused; natively the OS does it); (b) the target directory is a regular file (ENOTDIR on everything below it);
// (c) the target directory is a symbolic link to nothing.
// The call must not report success. Both families; extension list empty or {".x"}.
func VerifC06Fault() {
	n := verifN()
	targetIsFile := verifFlag("targetIsFile")
	targetDangling := !targetIsFile && verifFlag("targetDangling")
	long := -1
	if !targetIsFile && !targetDangling {
		long = int(verifChoose("long", 0, uint(n-1)))
	}
	cnt := 0
	vfsReset()
	name := func(label string) string {
		cnt++
		if cnt-1 == long {
			vfsLongElem = verifLongName("long")
			vfsLongName = true
			return vfsLongElem
		}
		return verifName(label)
	}
	var exts []string
	if verifFlag("ext") {
		exts = []string{".x"}
	}
	if targetIsFile {
		vfsTargetAsFile()
	}
	if targetDangling {
		// the target directory is a symbolic link to nothing: Stat does not see it, Mkdir collides with it
		vfsTargetAsDangling()
	}
	var err error
	verifContext("C06.fault")
	if verifFlag("fromRoot") {
		root, _ := buildProgram(n-1, name, "C06.add")
		vfsSeal()
		err = MkdirFromRoot(root.real, WithTargetDir(vfsTarget()), WithFileExtensions(exts))
	} else {
		lines, rows := wellFormedLines(n, name)
		nodes, roots := specForest(lines)
		for i, r := range roots {
			for j := 0; j < i; j++ {
				verifAssume(nodes[r].name != nodes[roots[j]].name)
			}
		}
		vfsSeal()
		err = MkdirFromMarkdown(&verifReader{lines: rows}, WithTargetDir(vfsTarget()), WithFileExtensions(exts))
	}
	cls := "/longname"
	if targetIsFile {
		cls = "/targetisfile"
	}
	if targetDangling {
		cls = "/targetdangling"
	}
	verifAssert(err != nil, "C06.fault.reported"+cls)
	verifReach("C06.fault.end")
}
