//go:build verif

package gtree

import (
	"context"
	"strings"
)

func init() {
	verifRegister("VerifC12Rows", VerifC12Rows)
	verifRegister("VerifC12Long", VerifC12Long)
	verifRegister("VerifC12Empty", VerifC12Empty)
}

// c12Rows draws rows of arbitrary bytes: verifN() = 10*rows + maxlen (+100: all 256 byte values except \n).
var c12ASCII bool // every byte of the drawn rows is below 0x80

// c12LongRows (verifN() >= 1000): rows longer than any fixed small buffer or abbreviation limit -- a notation prefix
// (none, a root bullet, an indented bullet, a too deeply indented bullet, a heading), a long run of one unit (ASCII,
// two-byte, three-byte characters, invalid bytes, or a mixture: 30 or 100 units, so byte length and rune count are
// far apart) and an arbitrary byte at the end; alone or after a well-formed root and child.
func c12LongRows() (rows []string, allBlank bool) {
	c12ASCII = false
	unit := []string{"a", "\u00e9", "\u8a9e", "\xff", "\u8a9e\xff", " "}[verifChoose("unit", 0, 5)]
	m := 30
	if verifFlag("hundred") {
		m = 100
	}
	prefix := []string{"", "- ", "  - ", "      - ", "# ", "\t- "}[verifChoose("prefix", 0, 5)]
	tail := verifBytes("tail", 1)
	verifAssume(tail[0] != '\n')
	row := prefix + strings.Repeat(unit, m) + tail
	if verifFlag("afterRoot") {
		rows = []string{"- r", "  - c", row}
	} else {
		rows = []string{row}
	}
	return rows, false
}

func c12Rows() (rows []string, allBlank bool) {
	if verifN() >= 1000 {
		return c12LongRows()
	}
	c12ASCII = true
	nrows := (verifN() / 10) % 10
	maxlen := verifN() % 10
	all := verifN() >= 100
	allBlank = true
	for i := 0; i < nrows; i++ {
		l := int(verifChoose("len", 0, uint(maxlen)))
		row := verifBytes("row", l)
		for j := 0; j < len(row); j++ {
			verifAssume(row[j] != '\n')
			if !all {
				verifAssume(row[j] < 0x80)
			} else if row[j] >= 0x80 {
				c12ASCII = false
			}
			if !(row[j] == ' ' || row[j] == '\t' || row[j] == '\r' || row[j] == '\v' || row[j] == '\f') {
				allBlank = false
			}
		}
		rows = append(rows, row)
	}
	return
}

// VerifC12Rows: every document of r rows, each an arbitrary byte string of length 0..L, through the real parser
// and every sequential entry point (output in each mode, walk, dry-run, mkdir and verify on the file-system
// model): the call returns (no panic, no exceeded step budget on any feasible path); when every row is blank the
// output is empty and nil is returned.
func VerifC12Rows() {
	rows, allBlank := c12Rows()
	w := newVerifWriter()
	var err error
	route := verifChoose("route", 0, 13)
	vfsReset()
	if (route == 5 || route == 6 || route == 12 || route == 13) && verifFlag("targetIsFile") {
		// the file-system routes in a hostile environment: the target directory is a regular file, so every Stat below
		// it fails with an error that is not "does not exist"
		vfsTargetAsFile()
	}
	vfsSeal()
	calls := 0
	verifContext("C12.rows")
	switch route {
	case 0:
		err = OutputFromMarkdown(w, &verifReader{lines: rows})
	case 1:
		err = OutputFromMarkdown(w, &verifReader{lines: rows}, WithNoUseIterOfSimpleOutput())
	case 2:
		err = OutputFromMarkdown(w, &verifReader{lines: rows}, WithEncodeJSON())
	case 3:
		err = OutputFromMarkdown(w, &verifReader{lines: rows}, WithDryRun())
	case 4:
		err = WalkFromMarkdown(&verifReader{lines: rows}, func(*WalkerNode) error { calls++; return nil })
	case 5:
		err = MkdirFromMarkdown(&verifReader{lines: rows}, WithTargetDir(vfsTarget()))
	case 6:
		err = VerifyFromMarkdown(&verifReader{lines: rows}, WithTargetDir(vfsTarget()))
	case 7:
		err = OutputFromMarkdown(w, &verifReader{lines: rows}, WithEncodeYAML())
	case 8: // massive mode: a panic in any interpreted goroutine is a violation as well
		err = OutputFromMarkdown(w, &verifReader{lines: rows}, WithMassive(context.Background()))
	case 9:
		err = WalkFromMarkdown(&verifReader{lines: rows}, func(*WalkerNode) error { calls++; return nil }, WithMassive(context.Background()))
	case 10:
		err = OutputFromMarkdown(w, &verifReader{lines: rows}, WithMassive(context.Background()), WithEncodeJSON())
	case 11:
		err = OutputFromMarkdown(w, &verifReader{lines: rows}, WithMassive(context.Background()), WithDryRun())
	case 12:
		err = MkdirFromMarkdown(&verifReader{lines: rows}, WithMassive(context.Background()), WithTargetDir(vfsTarget()))
	case 13:
		err = VerifyFromMarkdown(&verifReader{lines: rows}, WithMassive(context.Background()), WithTargetDir(vfsTarget()))
	}
	verifReach("C12.returned")
	if allBlank {
		verifAssert(err == nil, "C12.empty.nil")
		verifAssert(len(w.out) == 0 && calls == 0 && vfsTouched() == 0, "C12.empty.nothing")
	}
	// (rows with bytes >= 0x80 may be blank in the library's sense: Unicode white space such as U+00A0, U+0085)
	if err == nil && route <= 1 && !allBlank && c12ASCII {
		verifAssert(len(w.out) > 0, "C12.accepted.nonempty")
	}
}

// VerifC12Empty: the empty document and documents of 1..3 blank rows (atoms constrained by the Parse contract)
// at tree level on every sequential entry point, both From-Markdown output routes.
func VerifC12Empty() {
	k := int(verifChoose("blankRows", 0, 3))
	var rows, literal []string
	for i := 0; i < k; i++ {
		ws := []string{"", " ", "\t"}[verifChoose("ws", 0, 2)]
		rows = append(rows, verifRow(ws, 1, 0, ""))
		literal = append(literal, ws) // massive mode: the splitter looks at the first byte, the rows are given as bytes
	}
	w := newVerifWriter()
	var err error
	route := verifChoose("route", 0, 10)
	vfsReset()
	vfsSeal()
	calls := 0
	verifContext("C12.empty")
	switch route {
	case 0:
		err = OutputFromMarkdown(w, &verifReader{lines: rows})
	case 1:
		err = OutputFromMarkdown(w, &verifReader{lines: rows}, WithNoUseIterOfSimpleOutput())
	case 2:
		err = OutputFromMarkdown(w, &verifReader{lines: rows}, WithEncodeJSON())
	case 3:
		err = OutputFromMarkdown(w, &verifReader{lines: rows}, WithDryRun())
	case 4:
		err = WalkFromMarkdown(&verifReader{lines: rows}, func(*WalkerNode) error { calls++; return nil })
	case 5:
		err = MkdirFromMarkdown(&verifReader{lines: rows}, WithTargetDir(vfsTarget()))
	case 6:
		err = VerifyFromMarkdown(&verifReader{lines: rows}, WithTargetDir(vfsTarget()))
	case 7:
		err = OutputFromMarkdown(w, &verifReader{lines: rows}, WithEncodeTOML())
	case 8:
		err = Output(w, &verifReader{lines: rows}, WithEncodeYAML())
	case 9:
		err = OutputFromMarkdown(w, &verifReader{lines: literal}, WithMassive(context.Background()))
	case 10:
		err = MkdirFromMarkdown(&verifReader{lines: literal}, WithTargetDir(vfsTarget()), WithMassive(context.Background()))
	}
	verifAssert(err == nil, "C12.empty.nil")
	verifAssert(len(w.out) == 0 && calls == 0 && vfsTouched() == 0, "C12.empty.nothing")
	verifReach("C12.empty.end")
}

// VerifC12Long: over-long lines on the REAL bufio.Scanner (job flag realscan). One root row whose length is at the
// scanner's limit (bufio.MaxScanTokenSize = 64 KiB: a row of 65535 bytes plus its newline still fits, one byte more
// does not), optionally followed by a short second root; one name byte is arbitrary. Every entry point returns;
// the row that fits is rendered completely, the row that does not fit is an error (never a nil with the row lost,
// never a panic or a hang), in simple and in massive mode.
func VerifC12Long() {
	over := verifFlag("over")
	b := verifBytes("byte", 1)
	verifAssume(b[0] != '\n' && b[0] != '\r' && b[0] < 0x80)
	n := 65535 - 2 - 1
	if over {
		n++
	}
	name := strings.Repeat("a", n) + b
	doc := "- " + name + "\n"
	if verifFlag("second") {
		doc += "- z\n"
	}
	route := verifChoose("route", 0, 3)
	verifContext("C12.long")
	w := newVerifWriter()
	var err error
	switch route {
	case 0:
		err = OutputFromMarkdown(w, strings.NewReader(doc))
	case 1:
		err = OutputFromMarkdown(w, strings.NewReader(doc), WithNoUseIterOfSimpleOutput())
	case 2:
		err = WalkFromMarkdown(strings.NewReader(doc), func(wn *WalkerNode) error { w.out += wn.Row() + "\n"; return nil })
	case 3:
		err = OutputFromMarkdown(w, strings.NewReader(doc), WithMassive(context.Background()))
	}
	verifReach("C12.long.returned")
	if over {
		verifAssert(err != nil, "C12.long.reported")
	} else {
		verifAssert(err == nil, "C12.long.fits.nil")
		verifAssert(strings.HasPrefix(w.out, name+"\n") || strings.HasSuffix(w.out, name+"\n"), "C12.long.fits.rendered")
	}
	if route == 3 {
		verifAssert(verifQuiesce() == 0, "C12.long.noleak")
	}
}
