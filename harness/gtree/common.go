//go:build verif

package gtree

import (
	"sync/atomic"
	"errors"
	"io"
)

// ---- reader / writer used by every harness (plain Go: same code under the engine and natively) ----

// verifReader delivers the given rows as lines and then fails with err (io.EOF if nil).
// Under the engine bufio.NewScanner recognises the type and yields lines/err directly (contract of
// bufio.ScanLines, trusted); natively Read feeds the real bufio.Scanner.
type verifReader struct {
	lines []string
	err   error
	buf   []byte
	init  bool
	// pos: rows handed out so far (under the engine the Scanner stub keeps it up to date; natively Read hands out
	// one row per call when oneByOne is set, so that "how much was read after the call returned" can be measured)
	pos      int64
	oneByOne bool
	next     int
}

func (r *verifReader) Read(p []byte) (int, error) {
	if r.oneByOne {
		if len(r.buf) == 0 {
			if r.next >= len(r.lines) {
				if r.err != nil {
					return 0, r.err
				}
				return 0, io.EOF
			}
			r.buf = append([]byte(r.lines[r.next]), '\n')
			r.next++
			atomic.AddInt64(&r.pos, 1)
		}
		n := copy(p, r.buf)
		r.buf = r.buf[n:]
		return n, nil
	}
	if !r.init {
		r.init = true
		for _, l := range r.lines {
			r.buf = append(r.buf, l...)
			r.buf = append(r.buf, '\n')
		}
	}
	if len(r.buf) == 0 {
		if r.err != nil {
			return 0, r.err
		}
		return 0, io.EOF
	}
	n := copy(p, r.buf)
	r.buf = r.buf[n:]
	return n, nil
}

func (r *verifReader) rowsRead() int64 { return atomic.LoadInt64(&r.pos) }

var errVerifWrite = errors.New("verif: write refused")
var errVerifRead = errors.New("verif: read refused")

// verifWriter records what it accepted; write number failAt (0-based) is refused (failAt < 0: never),
// shortAt makes that write a short write (one byte fewer, io.ErrShortWrite semantics left to the caller).
type verifWriter struct {
	out    string
	chunks []string
	n      int
	failAt int
	failed bool
	err    error // the error a refused write returns (nil: errVerifWrite)
}

func newVerifWriter() *verifWriter { return &verifWriter{failAt: -1} }

// verifWriteHook: set by native-only stress entries (a yield inside Write gives the real scheduler the interleavings
// the engine's write-yield policy explores); nil otherwise
var verifWriteHook func()

func (w *verifWriter) Write(p []byte) (int, error) {
	if verifWriteHook != nil {
		verifWriteHook()
	}
	if w.n == w.failAt {
		w.n++
		w.failed = true
		if w.err != nil {
			return 0, w.err
		}
		return 0, errVerifWrite
	}
	w.n++
	w.out += string(p)
	w.chunks = append(w.chunks, string(p))
	return len(p), nil
}

// ---- reference model: forest of a well-formed document, rendering rule of the property ----

type vLine struct {
	depth uint
	name  string
}

type vNode struct {
	name     string
	parent   int
	children []int
}

// specForest builds the forest the statement describes: a row of depth d > 0 hangs under the nearest earlier
// row of depth d-1; equally named siblings are one node. Precondition: well-formed depths.
func specForest(lines []vLine) (nodes []vNode, roots []int) {
	var open []int
	for _, l := range lines {
		d := int(l.depth)
		if d == 0 {
			nodes = append(nodes, vNode{name: l.name, parent: -1})
			roots = append(roots, len(nodes)-1)
			open = []int{len(nodes) - 1}
			continue
		}
		p := open[d-1]
		found := -1
		for _, c := range nodes[p].children {
			if nodes[c].name == l.name {
				found = c
				break
			}
		}
		if found < 0 {
			nodes = append(nodes, vNode{name: l.name, parent: p})
			found = len(nodes) - 1
			nodes[p].children = append(nodes[p].children, found)
		}
		open = append(open[:d], found)
	}
	return
}

func specIsLast(nodes []vNode, i int) bool {
	ch := nodes[nodes[i].parent].children
	return ch[len(ch)-1] == i
}

// specBranch is the branch string of node i (empty for a root) under the four branch strings.
func specBranch(nodes []vNode, i int, ld, li, md, mi string) string {
	if nodes[i].parent < 0 {
		return ""
	}
	pre := ""
	for a := nodes[i].parent; nodes[a].parent >= 0; a = nodes[a].parent {
		if specIsLast(nodes, a) {
			pre = li + pre
		} else {
			pre = mi + pre
		}
	}
	if specIsLast(nodes, i) {
		return pre + ld
	}
	return pre + md
}

func specRender(nodes []vNode, i int, ld, li, md, mi string) string {
	out := ""
	if nodes[i].parent < 0 {
		out = nodes[i].name + "\n"
	} else {
		out = specBranch(nodes, i, ld, li, md, mi) + " " + nodes[i].name + "\n"
	}
	for _, c := range nodes[i].children {
		out += specRender(nodes, c, ld, li, md, mi)
	}
	return out
}

func specRenderForest(nodes []vNode, roots []int, ld, li, md, mi string) string {
	want := ""
	for _, r := range roots {
		want += specRender(nodes, r, ld, li, md, mi)
	}
	return want
}

const (
	dLD = "└──"
	dLI = "    "
	dMD = "├──"
	dMI = "│   "
)

// wellFormedLines draws n item rows with well-formed symbolic depths and atom names; returns the lines and rows.
func wellFormedLines(n int, name func(string) string) (lines []vLine, rows []string) {
	prev := uint(0)
	for i := 0; i < n; i++ {
		var d uint
		if i > 0 {
			d = verifChoose("depth", 0, prev+1)
		}
		nm := name("name")
		lines = append(lines, vLine{d, nm})
		// the notation bytes are a literal prefix (canonical spelling), so that the rows can also be fed to the
		// massive-mode splitter, which looks at the first byte of a row
		pre := "- "
		for k := uint(0); k < d; k++ {
			pre = "  " + pre
		}
		rows = append(rows, verifRow(pre, 0, d, nm))
		prev = d
	}
	return
}

func shapeNote(lines []vLine) string {
	s := "depths="
	for _, l := range lines {
		s += string(rune('0' + l.depth))
	}
	return s
}

// nodeRel: the names from the root to node i
func nodeRel(nodes []vNode, i int) []string {
	if nodes[i].parent < 0 {
		return []string{nodes[i].name}
	}
	return append(nodeRel(nodes, nodes[i].parent), nodes[i].name)
}


func sameElems(a, b []string) bool {
	if len(a) != len(b) {
		return false
	}
	for i := range a {
		if a[i] != b[i] {
			return false
		}
	}
	return true
}
