//go:build verif

package gtree

func init() {
	verifRegister("VerifC04", VerifC04)
	verifRegister("VerifC04Root", VerifC04Root)
}

// VerifC04: From-Markdown with an encoding option on every forest of n rows (names opaque, repeated sibling
// names merged): one Encode per root in input order, and the encoded {value, children} structure equals the
// reference forest in names, child order and nesting. Both simple routes.
func VerifC04() {
	n := verifN()
	lines, rows := wellFormedLines(n, verifText)
	verifNote(shapeNote(lines))
	kind := int(verifChoose("enc", 1, 3))
	nodes, roots := specForest(lines)
	if kind == encTOML {
		verifAssume(len(roots) == 1) // TOML is claimed for single-root input
	}
	opts := []Option{encOption(kind)}
	if verifFlag("noIter") {
		opts = append(opts, WithNoUseIterOfSimpleOutput())
	}
	w := newVerifWriter()
	verifContext("C04.output")
	err := OutputFromMarkdown(w, &verifReader{lines: rows}, opts...)
	verifAssert(err == nil, "C04.nil")
	verifAssert(len(w.chunks) >= len(roots), "C04.order.count")
	verifAssert(encMatches(kind, w.out, recsOfForest(nodes, roots)), "C04.iso")
	verifReach("C04.end")
}

// VerifC04Root: the From-Root family on programs of n nodes.
func VerifC04Root() {
	n := verifN()
	root, _ := buildProgram(n-1, verifText, "C04.add")
	kind := int(verifChoose("enc", 1, 3))
	w := newVerifWriter()
	verifContext("C04.root")
	err := OutputFromRoot(w, root.real, encOption(kind))
	verifAssert(err == nil, "C04.root.nil")
	verifAssert(encMatches(kind, w.out, []*rec{recOfM(root)}), "C04.root.iso")
	verifReach("C04.root.end")
}
