//go:build verif

package gtree

// engine side of the byte-level Mkdir harness: os.Stat answers "does not exist", os.MkdirAll / os.Create record
// their argument and succeed (engine stubs); verifFSCalls returns the recorded paths.
func c07Target() string { return "/jail/target" }
func c07Seal()          {}
