//go:build verif

package gtree

func init() {
	verifRegister("VerifWide", VerifWide)
}

// VerifWide: wide nodes (sizes around which a child index, a small fixed array or a growth step could sit): a root
// with w = 15..18 distinct children (concrete names), then one more row under the root whose name repeats child
// number `repeat` (solver-chosen among all w) or is new, with a grandchild below it, then optionally a last new
// child. Real parser, real tree code. From Markdown: text output (both routes) equals the reference rendering of the
// merged tree (equally named siblings are one node). Programmatically: Add of an existing name returns the existing
// node, and the text output of the tree so built is the same.
func VerifWide() {
	w := 15 + int(verifChoose("width", 0, 3))
	rep := int(verifChoose("repeat", 0, uint(w)))
	tail := verifFlag("tail")
	name := func(i int) string { return "c" + string(rune('0'+i/10)) + string(rune('0'+i%10)) }
	lines := []vLine{{0, "r"}}
	rows := []string{"- r"}
	for i := 0; i < w; i++ {
		lines = append(lines, vLine{1, name(i)})
		rows = append(rows, "  - "+name(i))
	}
	again := "zz"
	if rep < w {
		again = name(rep)
	}
	lines = append(lines, vLine{1, again}, vLine{2, "g"})
	rows = append(rows, "  - "+again, "    - g")
	if tail {
		lines = append(lines, vLine{1, "last"})
		rows = append(rows, "  - last")
	}
	nodes, roots := specForest(lines)
	want := specRenderForest(nodes, roots, dLD, dLI, dMD, dMI)
	verifContext("Wide")
	if verifFlag("programmatic") {
		root := NewRoot("r")
		var kids []*Node
		for i := 0; i < w; i++ {
			kids = append(kids, root.Add(name(i)))
		}
		n2 := root.Add(again)
		if rep < w {
			verifAssert(n2 == kids[rep], "Wide.add.same")
		}
		n2.Add("g")
		if tail {
			root.Add("last")
		}
		out := newVerifWriter()
		err := OutputFromRoot(out, root)
		verifAssert(err == nil, "Wide.prog.nil")
		verifAssert(out.out == want, "Wide.prog.text")
		visits := 0
		err = WalkFromRoot(root, func(*WalkerNode) error { visits++; return nil })
		verifAssert(err == nil && visits == len(nodes), "Wide.prog.walk")
		verifReach("Wide.end")
		return
	}
	for k, opts := range [][]Option{nil, {WithNoUseIterOfSimpleOutput()}} {
		cls := []string{"/iter", "/noiter"}[k]
		out := newVerifWriter()
		err := OutputFromMarkdown(out, &verifReader{lines: rows}, opts...)
		verifAssert(err == nil, "Wide.md.nil"+cls)
		verifAssert(out.out == want, "Wide.md.text"+cls)
	}
	verifReach("Wide.end")
}

func init() {
	verifRegister("VerifDeep", VerifDeep)
}

// VerifDeep: deep trees (depths around which a fixed-size stack or a recursion limit could sit): a chain of
// 32..35 (thorough: 30..70) levels below the root and one more child at the top, in the middle or at the bottom of the
// chain (so the walk has to come
// back up from the bottom). Real parser, real tree code: text output equals the reference rendering; the callback
// walk from Markdown and from the programmatic tree and the iterator walk visit exactly the output's lines, in order.
func VerifDeep() {
	depth := 32 + int(verifChoose("depth", 0, 3))
	if verifN() > 0 {
		depth = 30 + int(verifChoose("depth", 0, 40)) // thorough: up to 70 levels
	}
	side := []int{1, depth / 2, depth - 1, depth}[verifChoose("sideAt", 0, 3)]
	lines := []vLine{{0, "r"}}
	rows := []string{"- r"}
	ind := ""
	name := func(d int) string { return "n" + string(rune('0'+d/10)) + string(rune('0'+d%10)) }
	for d := 1; d <= depth; d++ {
		ind += "  "
		lines = append(lines, vLine{uint(d), name(d)})
		rows = append(rows, ind+"- "+name(d))
	}
	lines = append(lines, vLine{uint(side), "s"})
	rows = append(rows, ind[:2*side]+"- s")
	nodes, roots := specForest(lines)
	want := specRenderForest(nodes, roots, dLD, dLI, dMD, dMI)
	verifContext("Deep")
	switch verifChoose("op", 0, 3) {
	case 0:
		out := newVerifWriter()
		err := OutputFromMarkdown(out, &verifReader{lines: rows})
		verifAssert(err == nil && out.out == want, "Deep.text")
	case 1:
		got := ""
		err := WalkFromMarkdown(&verifReader{lines: rows}, func(wn *WalkerNode) error { got += wn.Row() + "\n"; return nil })
		verifAssert(err == nil && got == want, "Deep.walk.md")
	default:
		root := NewRoot("r")
		at := []*Node{root}
		for d := 1; d <= depth; d++ {
			at = append(at, at[d-1].Add(name(d)))
		}
		at[side-1].Add("s")
		got := ""
		if verifFlag("iter") {
			for wn, err := range WalkIterFromRoot(root) {
				verifAssert(err == nil, "Deep.iter.nil")
				got += wn.Row() + "\n"
			}
			verifAssert(got == want, "Deep.walk.iter")
		} else {
			err := WalkFromRoot(root, func(wn *WalkerNode) error { got += wn.Row() + "\n"; return nil })
			verifAssert(err == nil && got == want, "Deep.walk.root")
		}
	}
	verifReach("Deep.end")
}

func init() {
	verifRegister("VerifManyRoots", VerifManyRoots)
}

// VerifManyRoots: many roots in the simple mode (15..18 root blocks of a root and one or two children; the last block
// may repeat an earlier root's name: roots are never merged): text on both routes equals the reference rendering, and
// the callback walk visits exactly its lines.
func VerifManyRoots() {
	k := 15 + int(verifChoose("roots", 0, 3))
	rep := int(verifChoose("repeat", 0, uint(k))) // k: the last root's name is new
	lines := []vLine{}
	rows := []string{}
	name := func(i int) string { return "r" + string(rune('0'+i/10)) + string(rune('0'+i%10)) }
	for i := 0; i < k; i++ {
		lines = append(lines, vLine{0, name(i)}, vLine{1, "c"})
		rows = append(rows, "- "+name(i), "  - c")
		if i%2 == 1 {
			lines = append(lines, vLine{1, "d"})
			rows = append(rows, "  - d")
		}
	}
	last := "zz"
	if rep < k {
		last = name(rep)
	}
	lines = append(lines, vLine{0, last}, vLine{1, "e"})
	rows = append(rows, "- "+last, "  - e")
	nodes, roots := specForest(lines)
	want := specRenderForest(nodes, roots, dLD, dLI, dMD, dMI)
	verifContext("ManyRoots")
	switch verifChoose("op", 0, 2) {
	case 0:
		out := newVerifWriter()
		err := OutputFromMarkdown(out, &verifReader{lines: rows})
		verifAssert(err == nil && out.out == want, "ManyRoots.text/iter")
	case 1:
		out := newVerifWriter()
		err := OutputFromMarkdown(out, &verifReader{lines: rows}, WithNoUseIterOfSimpleOutput())
		verifAssert(err == nil && out.out == want, "ManyRoots.text/noiter")
	case 2:
		got := ""
		err := WalkFromMarkdown(&verifReader{lines: rows}, func(wn *WalkerNode) error { got += wn.Row() + "\n"; return nil })
		verifAssert(err == nil && got == want, "ManyRoots.walk")
	}
	verifReach("ManyRoots.end")
}
