//go:build verif

package gtree

// Model of a programmatically built tree (NewRoot/Add) kept next to the real one.

type mNode struct {
	name     string
	parent   *mNode
	children []*mNode
	real     *Node
}

func (m *mNode) find(name string) *mNode {
	for _, c := range m.children {
		if c.name == name {
			return c
		}
	}
	return nil
}

// mAdd performs parent.Add(name) on the real tree and on the model; it asserts that adding an existing name
// returns the existing child (pointer identity) and reports whether a new node was created.
func mAdd(p *mNode, name, assertID string) (*mNode, bool) {
	r := p.real.Add(name)
	if c := p.find(name); c != nil {
		verifAssert(r == c.real, assertID)
		return c, false
	}
	c := &mNode{name: name, parent: p, real: r}
	p.children = append(p.children, c)
	return c, true
}

func mIsLast(m *mNode) bool {
	ch := m.parent.children
	return ch[len(ch)-1] == m
}

func mBranch(m *mNode, ld, li, md, mi string) string {
	if m.parent == nil {
		return ""
	}
	pre := ""
	for a := m.parent; a.parent != nil; a = a.parent {
		if mIsLast(a) {
			pre = li + pre
		} else {
			pre = mi + pre
		}
	}
	if mIsLast(m) {
		return pre + ld
	}
	return pre + md
}

func mRow(m *mNode, ld, li, md, mi string) string {
	if m.parent == nil {
		return m.name
	}
	return mBranch(m, ld, li, md, mi) + " " + m.name
}

func mRender(m *mNode, ld, li, md, mi string) string {
	out := mRow(m, ld, li, md, mi) + "\n"
	for _, c := range m.children {
		out += mRender(c, ld, li, md, mi)
	}
	return out
}

func mPath(m *mNode) string {
	if m.parent == nil {
		return m.name
	}
	return mPath(m.parent) + "/" + m.name
}

func mLevel(m *mNode) uint {
	if m.parent == nil {
		return 1
	}
	return mLevel(m.parent) + 1
}

func mPreorder(m *mNode, out *[]*mNode) {
	*out = append(*out, m)
	for _, c := range m.children {
		mPreorder(c, out)
	}
}

// mRecord is the neutral bracket notation of the {value, children} record of the tree (see encode_*.go).
func mRecord(m *mNode) string {
	out := "{" + m.name + "["
	for i, c := range m.children {
		if i > 0 {
			out += " "
		}
		out += mRecord(c)
	}
	return out + "]}"
}

// mMarkdownRows spells the tree as abstract Markdown rows (pre-order, depth = level-1).
func mMarkdownRows(m *mNode, depth uint, rows *[]string) {
	*rows = append(*rows, verifRow("", 0, depth, m.name))
	for _, c := range m.children {
		mMarkdownRows(c, depth+1, rows)
	}
}

// buildProgram builds a tree with k Add calls on solver-chosen existing nodes (names are fresh atoms drawn by
// name(), so repeated names are decided by the solver); returns the model root and all nodes in creation order.
func buildProgram(k int, name func(string) string, addID string) (*mNode, []*mNode) {
	root := &mNode{name: name("name")}
	root.real = NewRoot(root.name)
	nodes := []*mNode{root}
	for i := 0; i < k; i++ {
		p := nodes[verifChoose("parent", 0, uint(len(nodes)-1))]
		if c, created := mAdd(p, name("name"), addID); created {
			nodes = append(nodes, c)
		}
	}
	return root, nodes
}
