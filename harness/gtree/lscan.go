//go:build verif

package gtree

import (
	"bufio"
	"context"
	"strings"
)

func init() {
	verifRegister("VerifLScan", VerifLScan)
	verifRegister("VerifC15Lines", VerifC15Lines)
}

// refLines: the line-splitting contract every tree-level harness relies on (the engine's Scanner stub and the
// verifReader deliver rows that follow it): split at '\n', drop one trailing '\r' of a line, deliver a final line
// without terminator iff it is non-empty.
func refLines(doc string) []string {
	var out []string
	start := 0
	cut := func(l string) string {
		if len(l) > 0 && l[len(l)-1] == '\r' {
			return l[:len(l)-1]
		}
		return l
	}
	for i := 0; i < len(doc); i++ {
		if doc[i] == '\n' {
			out = append(out, cut(doc[start:i]))
			start = i + 1
		}
	}
	if start < len(doc) {
		out = append(out, cut(doc[start:]))
	}
	return out
}

// VerifLScan (lemma L-scan): the REAL bufio.Scanner + bufio.ScanLines + strings.Reader, executed from std's SSA on a
// document of n arbitrary bytes (all 256 values), deliver exactly refLines(doc) and no error.
func VerifLScan() {
	n := verifN()
	doc := verifBytes("doc", n)
	verifContext("LS.scan")
	sc := bufio.NewScanner(strings.NewReader(doc))
	var got []string
	for sc.Scan() {
		got = append(got, sc.Text())
	}
	verifAssert(sc.Err() == nil, "LS.err")
	want := refLines(doc)
	ok := len(got) == len(want)
	for i := 0; ok && i < len(want); i++ {
		ok = got[i] == want[i]
	}
	verifObserve("nlines", string(rune('0'+len(got))))
	verifAssert(ok, "LS.lines")
	verifReach("LS.end")
}

// VerifC15Lines: end to end with the real scanner, real parser and real tree code. A forest of n%10 rows (every
// well-formed depth sequence, concrete names) is written once canonically (LF after every row) and once with a
// solver-chosen terminator per row (LF or CRLF), with or without the terminator of the last row, and optionally with
// one or two empty lines (LF / CRLF) appended; every output mode must give byte-identical results. n/10 selects the
// operation set: 0 simple-mode text (both routes), JSON and dry-run; 1 massive-mode text (splitter and per-block
// scanners are the real code as well).
func VerifC15Lines() {
	n := verifN() % 10
	massive := verifN()/10 == 1
	var rows []string
	prev := uint(0)
	for i := 0; i < n; i++ {
		var d uint
		if i > 0 {
			d = verifChoose("depth", 0, prev+1)
		}
		prev = d
		rows = append(rows, repStr("  ", int(d))+"- n"+string(rune('0'+i)))
	}
	docA, docB := "", ""
	for i, r := range rows {
		docA += r + "\n"
		docB += r
		last := i == len(rows)-1
		if last && verifFlag("nofinal") {
			continue
		}
		if verifFlag("crlf") {
			docB += "\r\n"
		} else {
			docB += "\n"
		}
	}
	switch verifChoose("tail", 0, 3) {
	case 1:
		docB += "\n"
	case 2:
		docB += "\r\n"
	case 3:
		docB += "\n\r\n"
	}
	verifObserve("docB", docB)
	run := func(doc string, opts ...Option) (string, error) {
		w := newVerifWriter()
		err := OutputFromMarkdown(w, strings.NewReader(doc), opts...)
		return w.out, err
	}
	verifContext("C15.lines")
	if massive {
		a, ea := run(docA)
		b, eb := run(docB, WithMassive(context.Background()))
		verifAssert(ea == nil && eb == nil, "C15.lines.nil/massive")
		verifAssert(sameBlocks(a, b), "C15.lines.same/massive")
		verifAssert(verifQuiesce() == 0, "C15.lines.noleak")
		verifReach("C15.lines.end")
		return
	}
	for k, opts := range [][]Option{nil, {WithNoUseIterOfSimpleOutput()}, {WithEncodeJSON()}, {WithDryRun()}} {
		cls := []string{"/text", "/noiter", "/json", "/dryrun"}[k]
		a, ea := run(docA, opts...)
		b, eb := run(docB, opts...)
		verifAssert(ea == nil && eb == nil, "C15.lines.nil"+cls)
		verifAssert(a == b, "C15.lines.same"+cls)
	}
	verifReach("C15.lines.end")
}

// sameBlocks: b is a permutation of a's per-root blocks (a block = a line that starts with 'n' and the following
// lines that do not)
func sameBlocks(a, b string) bool {
	ba, bb := rootBlocks(a), rootBlocks(b)
	if len(ba) != len(bb) {
		return false
	}
	used := make([]bool, len(bb))
	for _, x := range ba {
		found := false
		for j, y := range bb {
			if !used[j] && x == y {
				used[j], found = true, true
				break
			}
		}
		if !found {
			return false
		}
	}
	return true
}

func rootBlocks(s string) []string {
	var out []string
	cur := ""
	for _, l := range strings.SplitAfter(s, "\n") {
		if l == "" {
			continue
		}
		if l[0] == 'n' && cur != "" {
			out = append(out, cur)
			cur = ""
		}
		cur += l
	}
	if cur != "" {
		out = append(out, cur)
	}
	return out
}
