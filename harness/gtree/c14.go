//go:build verif

package gtree

import (
	"io"
	"context"
	"errors"

	"github.com/fatih/color"
)

func init() {
	verifRegister("VerifC14Reader", VerifC14Reader)
	verifRegister("VerifC14Writer", VerifC14Writer)
	verifRegister("VerifC14WriterRoot", VerifC14WriterRoot)
}


// c14Err: the failure value of the reader / writer is the caller's business: a fresh error, or one of the context
// package's own error values (a body or connection bound to some other context that was cancelled or timed out), or
// an error that wraps io.EOF without being it.
func c14Err(fresh error) error {
	switch verifChoose("errkind", 0, 3) {
	case 1:
		return context.Canceled
	case 2:
		return context.DeadlineExceeded
	case 3:
		return errVerifWrapsEOF
	}
	return fresh
}

// an error that is not io.EOF but wraps it (a transport that reports "stream cut short: EOF"): a failure, not the end
type verifEOFWrap struct{}

func (verifEOFWrap) Error() string { return "verif: stream cut short: EOF" }
func (verifEOFWrap) Unwrap() error { return io.EOF }

var errVerifWrapsEOF error = verifEOFWrap{}

// VerifC14Reader: the reader delivers the first k rows of a well-formed document and then fails with a fresh
// error; every sequential From-Markdown route must return that error (recognisable with errors.Is).
func VerifC14Reader() {
	n := verifN()
	lines, rows := wellFormedLines(n, verifName)
	k := int(verifChoose("cut", 0, uint(n)))
	readErr := c14Err(errVerifRead)
	r := &verifReader{lines: rows[:k], err: readErr}
	w := newVerifWriter()
	var err error
	route := verifChoose("route", 0, 10)
	verifContext("C14.reader")
	ctx := context.Background()
	switch route {
	case 0:
		err = OutputFromMarkdown(w, r)
	case 1:
		err = OutputFromMarkdown(w, r, WithNoUseIterOfSimpleOutput())
	case 2:
		err = OutputFromMarkdown(w, r, WithEncodeJSON())
	case 3:
		err = OutputFromMarkdown(w, r, WithDryRun())
	case 4:
		err = WalkFromMarkdown(r, func(*WalkerNode) error { return nil })
	case 5:
		err = OutputFromMarkdown(w, r, WithEncodeYAML())
	// massive mode: the splitter reads; its error has to reach the caller whatever the other stages are doing (the
	// failure may come before any stage or collector is waiting: k = 0)
	case 6:
		err = OutputFromMarkdown(w, r, WithMassive(ctx))
	case 7:
		err = OutputFromMarkdown(w, r, WithMassive(ctx), WithEncodeJSON())
	case 8:
		err = WalkFromMarkdown(r, func(*WalkerNode) error { return nil }, WithMassive(ctx))
	case 9:
		// distinct root names: the massive mkdir refuses a root it has made already (two blocks of one name), and
		// which of two failures of one call comes back first is the scheduler's choice; the reader's failure has to be
		// the only one for "the call returns that error" to be decidable
		for i := range lines {
			for j := 0; j < i; j++ {
				if lines[i].depth == 0 && lines[j].depth == 0 {
					verifAssume(lines[i].name != lines[j].name)
				}
			}
		}
		vfsReset()
		vfsSeal()
		err = MkdirFromMarkdown(r, WithMassive(ctx), WithTargetDir(vfsTarget()))
	case 10:
		vfsReset()
		// every node of the document exists as a directory: the verification itself has nothing to report, so the
		// only failure of the call is the reader's
		nodes, _ := specForest(lines)
		for i := range nodes {
			vfsAdd(nodeRel(nodes, i), 1)
		}
		vfsSeal()
		err = VerifyFromMarkdown(r, WithMassive(ctx), WithTargetDir(vfsTarget()))
	}
	if route >= 6 {
		verifAssert(err != nil, "C14.reader.nonnil/massive")
		verifAssert(errors.Is(err, readErr), "C14.reader.is/massive")
		verifAssert(verifQuiesce() == 0, "C14.reader.noleak")
		verifReach("C14.reader.end")
		return
	}
	verifAssert(err != nil, "C14.reader.nonnil")
	verifAssert(errors.Is(err, readErr), "C14.reader.is")
	verifReach("C14.reader.end")
}

// c14Expect: when nil is returned every byte of the output must have been accepted by the writer, i.e. the writer
// holds the complete expected output of the mode.
func c14Complete(mode uint, out string, lines []vLine) bool {
	nodes, roots := specForest(lines)
	switch mode {
	case 0, 1:
		return out == specRenderForest(nodes, roots, dLD, dLI, dMD, dMI)
	case 2:
		return encMatches(encJSON, out, recsOfForest(nodes, roots))
	case 3:
		return encMatches(encYAML, out, recsOfForest(nodes, roots))
	case 4:
		return encMatches(encTOML, out, recsOfForest(nodes, roots))
	}
	return true
}

// VerifC14Writer: the writer refuses write number failAt (any index up to one past the last write); the call must
// return non-nil whenever a write was refused, and when it returns nil the writer holds the complete output.
func VerifC14Writer() {
	n := verifN()
	lines, rows := wellFormedLines(n, verifName)
	mode := verifChoose("mode", 0, 8)
	if mode == 4 {
		// TOML is claimed for single-root input only
		for i := 1; i < len(lines); i++ {
			verifAssume(lines[i].depth > 0)
		}
	}
	w := newVerifWriter()
	w.failAt = int(verifChoose("failAt", 0, uint(n)))
	w.err = c14Err(errVerifWrite)
	r := &verifReader{lines: rows}
	var err error
	verifContext("C14.writer")
	switch mode {
	case 0:
		err = OutputFromMarkdown(w, r)
	case 1:
		err = OutputFromMarkdown(w, r, WithNoUseIterOfSimpleOutput())
	case 2:
		err = OutputFromMarkdown(w, r, WithEncodeJSON())
	case 3:
		err = OutputFromMarkdown(w, r, WithEncodeYAML())
	case 4:
		err = OutputFromMarkdown(w, r, WithEncodeTOML())
	case 5:
		err = OutputFromMarkdown(w, r, WithDryRun())
	case 6: // massive mode: the pipeline's own spreaders
		err = OutputFromMarkdown(w, r, WithMassive(context.Background()))
	case 7:
		err = OutputFromMarkdown(w, r, WithMassive(context.Background()), WithEncodeJSON())
	case 8:
		err = OutputFromMarkdown(w, r, WithMassive(context.Background()), WithDryRun())
	}
	cls := "/text"
	switch mode {
	case 2, 3, 4:
		cls = "/encode"
	case 5:
		cls = "/dryrun"
	case 6, 7, 8:
		cls = "/massive"
	}
	if w.failed {
		verifAssert(err != nil, "C14.writer.reported"+cls)
	} else {
		verifAssert(err == nil, "C14.writer.nospurious"+cls)
		if mode < 6 {
			verifAssert(c14Complete(mode, w.out, lines), "C14.writer.complete"+cls)
		}
	}
	if mode >= 6 {
		verifAssert(verifQuiesce() == 0, "C14.writer.noleak/massive")
	}
	verifReach("C14.writer.end")
}

// VerifC14WriterRoot: same for the From-Root family (fused grow-and-print path, encoders, dry-run report of
// MkdirFromRoot which goes to color.Output).
func VerifC14WriterRoot() {
	n := verifN()
	root, _ := buildProgram(n-1, verifName, "C14.add")
	mode := verifChoose("mode", 0, 2)
	w := newVerifWriter()
	w.failAt = int(verifChoose("failAt", 0, uint(n)))
	var err error
	verifContext("C14.writer.root")
	switch mode {
	case 0:
		err = OutputFromRoot(w, root.real)
	case 1:
		err = OutputFromRoot(w, root.real, WithEncodeJSON())
	case 2:
		color.Output = w
		err = MkdirFromRoot(root.real, WithDryRun())
	}
	cls := []string{"/text", "/encode", "/dryrun"}[mode]
	if w.failed {
		verifAssert(err != nil, "C14.rootwriter.reported"+cls)
	} else {
		verifAssert(err == nil, "C14.rootwriter.nospurious"+cls)
		if mode == 0 {
			verifAssert(w.out == mRender(root, dLD, dLI, dMD, dMI), "C14.rootwriter.complete/text")
		}
	}
	verifReach("C14.rootwriter.end")
}
