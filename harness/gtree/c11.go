//go:build verif

package gtree

import (
	"context"
	"errors"

)

func init() {
	verifRegister("VerifC11Fail", VerifC11Fail)
	verifRegister("VerifC11Cancel", VerifC11Cancel)
	verifRegister("VerifC11Long", VerifC11Long)
	verifRegister("VerifC11Root", VerifC11Root)
}

var errVerifCallback = errors.New("verif: callback failed")

// VerifC11Fail: n root blocks, an arbitrary subset of them failing, in every stage of the massive pipeline:
//   parse stage (a child row with empty text), grow stage (a child named "a/b" under validation), print stage
//   (the writer refuses every write), callback stage (walk callback fails on the chosen roots), file-system stage
//   (mkdir: the chosen roots already exist), reader (fails after the last row).
// The call returns (no deadlock), returns non-nil iff something failed, and once it has returned no goroutine is left.
func VerifC11Fail() {
	n := verifN()
	stage := verifChoose("stage", 0, 5)
	var rows []string
	var names []string
	nfail := 0
	failing := make([]bool, n)
	for i := 0; i < n; i++ {
		failing[i] = verifFlag("fails")
		if failing[i] {
			nfail++
		}
		nm := verifName("name")
		for _, o := range names {
			verifAssume(o != nm)
		}
		names = append(names, nm)
		rows = append(rows, verifRow("- ", 0, 0, nm))
		switch {
		case failing[i] && stage == 0:
			rows = append(rows, verifRow("  -", 3, 1, ""))
		case failing[i] && stage == 1:
			rows = append(rows, "  - a/b")
		default:
			rows = append(rows, verifRow("  - ", 0, 1, verifName("child")))
		}
	}
	ctx := context.Background()
	w := newVerifWriter()
	var err error
	failed := nfail > 0
	verifContext("C11.fail")
	switch stage {
	case 0:
		err = OutputFromMarkdown(w, &verifReader{lines: rows}, WithMassive(ctx))
	case 1:
		err = OutputFromMarkdown(w, &verifReader{lines: rows}, WithMassive(ctx), WithDryRun())
	case 2:
		err = OutputFromMarkdown(&c11Writer{w: w, refuseAll: nfail > 0}, &verifReader{lines: rows}, WithMassive(ctx))
	case 3:
		err = WalkFromMarkdown(&verifReader{lines: rows}, func(wn *WalkerNode) error {
			for i := range names {
				if failing[i] && wn.Name() == names[i] {
					return errVerifCallback
				}
			}
			return nil
		}, WithMassive(ctx))
	case 4:
		vfsReset()
		for i := range names {
			if failing[i] {
				vfsAdd([]string{names[i]}, 1)
			}
		}
		vfsSeal()
		err = MkdirFromMarkdown(&verifReader{lines: rows}, WithMassive(ctx), WithTargetDir(vfsTarget()))
	case 5:
		failed = true
		err = OutputFromMarkdown(w, &verifReader{lines: rows, err: errVerifRead}, WithMassive(ctx))
		verifAssert(errors.Is(err, errVerifRead) || err == nil, "C11.reader.is")
	}
	cls := []string{"/parse", "/validate", "/write", "/callback", "/fs", "/reader"}[stage]
	verifReach("C11.returns" + cls)
	verifAssert((err != nil) == failed, "C11.reported"+cls)
	verifAssert(verifQuiesce() == 0, "C11.noleak"+cls)
}

type c11Writer struct {
	w         *verifWriter
	refuseAll bool
}

func (c *c11Writer) Write(p []byte) (int, error) {
	if c.refuseAll {
		return 0, errVerifWrite
	}
	return c.w.Write(p)
}

// VerifC11Cancel: the caller's context is cancelled at synchronisation event k of the run (k solver-chosen:
// already cancelled, after k hand-overs, or never) on a well-formed document of n roots: the call returns, with
// nil (it finished) or the context's error, never anything else; a context cancelled before the call must give
// the context's error; no goroutine is left.
func VerifC11Cancel() {
	n := verifN()
	var rows, roots []string
	for i := 0; i < n; i++ {
		nm := verifName("name")
		roots = append(roots, nm)
		rows = append(rows, verifRow("- ", 0, 0, nm))
		rows = append(rows, verifRow("  - ", 0, 1, verifName("child")))
	}
	for i := 0; i < n; i++ {
		for j := 0; j < i; j++ {
			verifAssume(roots[i] != roots[j]) // distinct roots (mkdir would otherwise meet its own directory)
		}
	}
	k := verifChoose("cancelAt", 0, 40)
	if k == 40 {
		k = 100000 // never
	} else if k > 20 {
		k = 20 + (k-20)*8 // sparser sampling of late instants
	}
	op := verifChoose("op", 0, 4)
	vfsReset()
	vfsSeal()
	// the context ends by an explicit cancel or by its deadline: the error the call may return is the context's own
	ctxErr := error(context.Canceled)
	ctx := verifCtx(k)
	if verifFlag("deadline") {
		ctxErr = context.DeadlineExceeded
		ctx = verifCtxDeadline(k)
	}
	w := newVerifWriter()
	var err error
	verifContext("C11.cancel")
	switch op {
	case 0:
		err = OutputFromMarkdown(w, &verifReader{lines: rows}, WithMassive(ctx))
	case 1:
		err = WalkFromMarkdown(&verifReader{lines: rows}, func(*WalkerNode) error { return nil }, WithMassive(ctx))
	case 2:
		err = OutputFromMarkdown(w, &verifReader{lines: rows}, WithMassive(ctx), WithEncodeJSON())
	case 3: // mkdir into the (empty) file-system model: the mkdir stage's workers
		err = MkdirFromMarkdown(&verifReader{lines: rows}, WithMassive(ctx), WithTargetDir(vfsTarget()))
	case 4: // verify against the empty model: every root is missing, so a finished run reports that
		err = VerifyFromMarkdown(&verifReader{lines: rows}, WithMassive(ctx), WithTargetDir(vfsTarget()))
	}
	verifReach("C11.cancel.returns")
	if op == 4 {
		_, isVerify := err.(verifyError)
		verifAssert(isVerify || errors.Is(err, ctxErr), "C11.ctxerr.only")
	} else {
		verifAssert(err == nil || errors.Is(err, ctxErr), "C11.ctxerr.only")
	}
	if k == 0 {
		verifAssert(errors.Is(err, ctxErr), "C11.ctxerr/precancelled")
	}
	if k >= 100000 && op != 4 {
		verifAssert(err == nil, "C11.cancel.never")
	}
	verifAssert(verifQuiesce() == 0, "C11.noleak/cancel")
}

// VerifC11Root: the From-Root massive routes (root handed over by a helper goroutine) with a context that is
// cancelled at event k: returns, context error or nil, no goroutine left.
func VerifC11Root() {
	n := verifN()
	root, _ := buildProgram(n-1, verifName, "C11.add")
	k := verifChoose("cancelAt", 0, 24)
	if k == 24 {
		k = 100000
	}
	op := verifChoose("op", 0, 2)
	ctx := verifCtx(k)
	w := newVerifWriter()
	var err error
	verifContext("C11.root")
	switch op {
	case 0:
		err = OutputFromRoot(w, root.real, WithMassive(ctx))
	case 1:
		err = WalkFromRoot(root.real, func(*WalkerNode) error { return nil }, WithMassive(ctx))
	case 2:
		err = OutputFromRoot(w, root.real, WithMassive(ctx), WithEncodeJSON())
	}
	verifReach("C11.root.returns")
	verifAssert(err == nil || errors.Is(err, context.Canceled), "C11.root.ctxerr.only")
	if k == 0 {
		verifAssert(errors.Is(err, context.Canceled), "C11.ctxerr/precancelled-root")
	}
	verifAssert(verifQuiesce() == 0, "C11.noleak/root")
}


// VerifC11Long: cancellation in the middle of ONE long root block (a root with n+4 children, or a heading with that
// many list rows: the splitter hands a block over only when the next root begins, so the whole document is a single
// block). Under the read-yield policies every row read is a scheduling point and a possible cancellation instant. The
// call returns; nothing is left behind; and what is left of the pipeline when the call returns does not go on
// consuming the input: at most one more row is read after the return ("returns in bounded time ... no goroutine it
// started remains" must not depend on how much input is still to come).
func VerifC11Long() {
	n := verifN() + 4
	sharp := verifFlag("sharp")
	var rows []string
	if sharp {
		rows = append(rows, verifRow("# ", 0, 0, verifName("name")))
	} else {
		rows = append(rows, verifRow("- ", 0, 0, verifName("name")))
	}
	for i := 0; i < n; i++ {
		if sharp {
			rows = append(rows, verifRow("- ", 0, 1, verifName("child")))
		} else {
			rows = append(rows, verifRow("  - ", 0, 1, verifName("child")))
		}
	}
	k := verifChoose("cancelAt", 0, 24)
	ctx := verifCtx(k)
	rd := &verifReader{lines: rows, oneByOne: true}
	w := newVerifWriter()
	var err error
	verifContext("C11.long")
	if verifFlag("walk") {
		err = WalkFromMarkdown(rd, func(*WalkerNode) error { return nil }, WithMassive(ctx))
	} else {
		err = OutputFromMarkdown(w, rd, WithMassive(ctx))
	}
	at := rd.rowsRead()
	verifReach("C11.long.returns")
	verifAssert(err == nil || errors.Is(err, context.Canceled), "C11.long.ctxerr.only")
	left := verifQuiesce()
	verifAssert(left == 0, "C11.noleak/long")
	if !verifNative() {
		// natively the instant of the return is not observable at row granularity; the amplified scenario measures it
		verifAssert(rd.rowsRead()-at <= 1, "C11.stops/reader")
	}
}

func init() {
	verifRegister("VerifC11Many", VerifC11Many)
}

// VerifC11Many: more failing root blocks than a stage has workers (each stage has ten; a worker that reports an error
// leaves): 11 or 12 blocks that all fail in the same stage (parse: an item without text; validation: a name that is no
// path element, on the routes that validate), followed or not by a good block, on text output, walk, dry-run output,
// mkdir and verify: the call returns, reports an error and leaves nothing behind.
func VerifC11Many() {
	k := 11 + int(verifChoose("extraBad", 0, 1))
	stage := verifChoose("stage", 0, 1)
	var rows []string
	for i := 0; i < k; i++ {
		rows = append(rows, "- r"+string(rune('a'+i)))
		if stage == 0 {
			rows = append(rows, "  -")
		} else {
			rows = append(rows, "  - x/y")
		}
	}
	if verifFlag("goodTail") {
		rows = append(rows, "- z", "  - c")
	}
	ctx := context.Background()
	w := newVerifWriter()
	var err error
	lo := uint(0)
	if stage == 1 {
		lo = 2 // only the routes that validate names
	}
	verifContext("C11.many")
	switch verifChoose("op", lo, 4) {
	case 0:
		err = OutputFromMarkdown(w, &verifReader{lines: rows}, WithMassive(ctx))
	case 1:
		err = WalkFromMarkdown(&verifReader{lines: rows}, func(*WalkerNode) error { return nil }, WithMassive(ctx))
	case 2:
		err = OutputFromMarkdown(w, &verifReader{lines: rows}, WithMassive(ctx), WithDryRun())
	case 3:
		vfsReset()
		vfsSeal()
		err = MkdirFromMarkdown(&verifReader{lines: rows}, WithMassive(ctx), WithTargetDir(vfsTarget()))
	case 4:
		vfsReset()
		vfsSeal()
		err = VerifyFromMarkdown(&verifReader{lines: rows}, WithMassive(ctx), WithTargetDir(vfsTarget()))
	}
	verifReach("C11.many.returns")
	verifAssert(err != nil, "C11.many.reported")
	verifAssert(verifQuiesce() == 0, "C11.noleak/many")
}

func init() {
	verifRegister("VerifC11ManyGood", VerifC11ManyGood)
}

// VerifC11ManyGood: more GOOD root blocks than a stage has workers plus what its channels buffer (12..14 blocks;
// ten workers per stage, error channels of capacity one): every massive operation -- text, JSON, dry-run, walk, mkdir
// into an empty target, verify against a target that holds every node -- returns nil and leaves nothing behind.
func VerifC11ManyGood() {
	k := 12 + int(verifChoose("blocks", 0, 2))
	var rows []string
	vfsReset()
	op := verifChoose("op", 0, 5)
	for i := 0; i < k; i++ {
		r := "r" + string(rune('a'+i))
		rows = append(rows, "- "+r, "  - c")
		if op == 5 {
			vfsAdd([]string{r}, 1)
			vfsAdd([]string{r, "c"}, 1)
		}
	}
	vfsSeal()
	ctx := context.Background()
	w := newVerifWriter()
	var err error
	verifContext("C11.manygood")
	switch op {
	case 0:
		err = OutputFromMarkdown(w, &verifReader{lines: rows}, WithMassive(ctx))
	case 1:
		err = OutputFromMarkdown(w, &verifReader{lines: rows}, WithMassive(ctx), WithEncodeJSON())
	case 2:
		err = OutputFromMarkdown(w, &verifReader{lines: rows}, WithMassive(ctx), WithDryRun())
	case 3:
		err = WalkFromMarkdown(&verifReader{lines: rows}, func(*WalkerNode) error { return nil }, WithMassive(ctx))
	case 4:
		err = MkdirFromMarkdown(&verifReader{lines: rows}, WithMassive(ctx), WithTargetDir(vfsTarget()))
	case 5:
		err = VerifyFromMarkdown(&verifReader{lines: rows}, WithMassive(ctx), WithTargetDir(vfsTarget()))
	}
	verifReach("C11.manygood.returns")
	verifAssert(err == nil, "C11.manygood.nil")
	verifAssert(verifQuiesce() == 0, "C11.noleak/manygood")
}
