//go:build verif

package gtree

import "context"

// Native-only validation of the CONTRACT of the encoder stubs ("Encode(v) produces bytes that the standard decoder of
// the format turns back into v, whatever the names are"): the solver's models rarely contain hostile characters, and
// the libraries cannot be encoded, so on every run of C04 a fixed alphabet of hostile names goes through the public
// API (both families, JSON / YAML / TOML, JSON also in massive mode) and the real bytes are decoded and compared.
// This is a concrete contract validation, not a solver verdict.

func init() {
	verifRegister("VerifC04Hostile", VerifC04Hostile)
}

var c04Hostile = []string{
	`"quoted"`, `it's`, `back\slash`, `a: b`, `# hash`, `- dash`, `{brace}`, `[bracket]`, `a,b`, `&anchor`, `*alias`, `!tag`, `|pipe`, `>fold`, `%percent`, `@at`,
	"tab\there", "bell\a", "esc\x1b[0m", "nul\x00byte", "vt\vff\f", "del\x7f", "cr\rmid", "unit\x1f",
	"日本語", "émoji 🌳", " line sep", " nbsp", "<html>&amp;", "true", "null", "123", "1e3", "~", "0x1f", "yes",
	"trailing ", "  leading", "multi  space", "=", "a=b", "key.with.dots", "'", `"`, `\`, "\\n",
}

func VerifC04Hostile() {
	verifContext("C04.hostile")
	for i, nm := range c04Hostile {
		// the name as root, as only child and among siblings
		root := NewRoot(nm)
		c := root.Add("c")
		c.Add(nm)
		root.Add(c04Hostile[(i+1)%len(c04Hostile)])
		want := []*rec{{name: nm, children: []*rec{{name: "c", children: []*rec{{name: nm}}}, {name: c04Hostile[(i+1)%len(c04Hostile)]}}}}
		for _, kind := range []int{encJSON, encYAML, encTOML} {
			w := newVerifWriter()
			err := OutputFromRoot(w, root, encOption(kind))
			verifAssert(err == nil && encMatches(kind, w.out, want), "C04.hostile/root")
		}
		w := newVerifWriter()
		err := OutputFromRoot(w, root, WithEncodeJSON(), WithMassive(context.Background()))
		verifAssert(err == nil && encMatches(encJSON, w.out, want), "C04.hostile/massive")
		// the Markdown family: names that survive the line parser unchanged (no line breaks, no outer blanks)
		if nm == trimBlanks(nm) && !hasLineBreak(nm) {
			rows := []string{"- " + nm, "  - c", "    - " + nm}
			wantMd := []*rec{{name: nm, children: []*rec{{name: "c", children: []*rec{{name: nm}}}}}}
			for _, kind := range []int{encJSON, encYAML, encTOML} {
				w := newVerifWriter()
				err := OutputFromMarkdown(w, &verifReader{lines: rows}, encOption(kind))
				verifAssert(err == nil && encMatches(kind, w.out, wantMd), "C04.hostile/markdown")
			}
		}
	}
}

func hasLineBreak(s string) bool {
	for i := 0; i < len(s); i++ {
		if s[i] == '\n' || s[i] == '\r' {
			return true
		}
	}
	return false
}

func trimBlanks(s string) string {
	for len(s) > 0 && (s[0] == ' ' || s[0] == '\t') {
		s = s[1:]
	}
	for len(s) > 0 && (s[len(s)-1] == ' ' || s[len(s)-1] == '\t') {
		s = s[:len(s)-1]
	}
	return s
}
