//go:build verif

package gtree

import (
	"context"
	"strings"
	"sync"
)

// Native-only amplification used to CONFIRM schedule-dependent counterexamples the engine found for C10 under the
// write-yield policies (two printing goroutines interleaving their lines): a large document (300 roots with 12
// children each) is printed in massive mode into a writer that is safe for concurrent use; every root's lines must
// be contiguous and complete. Never run unless the engine reported a counterexample; asserts the same id.

func init() {
	verifRegister("VerifC10Stress", VerifC10Stress)
}

type c10SafeWriter struct {
	mu    sync.Mutex
	lines []string
}

func (w *c10SafeWriter) Write(p []byte) (int, error) {
	w.mu.Lock()
	w.lines = append(w.lines, string(p))
	w.mu.Unlock()
	return len(p), nil
}

func VerifC10Stress() {
	const roots, kids = 300, 12
	var b strings.Builder
	for i := 0; i < roots; i++ {
		b.WriteString("- r" + c09Itoa(i) + "\n")
		for j := 0; j < kids; j++ {
			b.WriteString("  - r" + c09Itoa(i) + "k" + c09Itoa(j) + "\n")
		}
	}
	for try := 0; try < 3; try++ {
		w := &c10SafeWriter{}
		err := OutputFromMarkdown(w, strings.NewReader(b.String()), WithMassive(context.Background()))
		verifAssert(err == nil, "C10.err/text")
		// contiguity: a root line "rI" must be followed by exactly its kids' lines
		ok := len(w.lines) == roots*(kids+1)
		for i := 0; ok && i < len(w.lines); i += kids + 1 {
			root := strings.TrimSuffix(w.lines[i], "\n")
			if !strings.HasPrefix(root, "r") || strings.Contains(root, "k") {
				ok = false
				break
			}
			for j := 0; j < kids; j++ {
				if !strings.HasSuffix(w.lines[i+1+j], " "+root+"k"+c09Itoa(j)+"\n") {
					ok = false
				}
			}
		}
		verifAssert(ok, "C10.same/text")
		verifAssert(verifQuiesce() == 0, "C10.noleak")
	}
	// blocks larger than a bufio.Writer's buffer: 60 roots, each with a child whose name has 5000 bytes
	var big strings.Builder
	const bigRoots = 60
	for i := 0; i < bigRoots; i++ {
		big.WriteString("- r" + c09Itoa(i) + "\n  - " + strings.Repeat(string(rune('a'+i%26)), 5000) + c09Itoa(i) + "\n  - z" + c09Itoa(i) + "\n")
	}
	for try := 0; try < 5; try++ {
		w := &c10SafeWriter{}
		err := OutputFromMarkdown(w, strings.NewReader(big.String()), WithMassive(context.Background()))
		verifAssert(err == nil, "C10.big.nil")
		ls := strings.Split(strings.Join(w.lines, ""), "\n")
		ok := len(ls) == 3*bigRoots+1
		for i := 0; ok && i+2 < len(ls); i += 3 {
			root := ls[i]
			if !strings.HasPrefix(root, "r") {
				ok = false
				break
			}
			n := root[1:]
			if !strings.HasSuffix(ls[i+1], "a"+n) && !strings.HasSuffix(ls[i+1], n) || len(ls[i+1]) < 5000 || !strings.HasSuffix(ls[i+2], " z"+n) {
				ok = false
			}
		}
		verifAssert(ok, "C10.big.same")
	}
}
