//go:build verif

package gtree

import "github.com/fatih/color"

func init() {
	verifRegister("VerifC09", VerifC09)
}

// c09Copy: every call gets an extension list of its own (the list may hold the same extension twice; what a call
// does to the slice it is handed must not reach the other call through the harness)
func c09Copy(exts []string) []string { return append([]string{}, exts...) }

func c09Itoa(n int) string {
	if n == 0 {
		return "0"
	}
	s := ""
	for n > 0 {
		s = string(rune('0'+n%10)) + s
		n /= 10
	}
	return s
}

// VerifC09: the three dry-run routes (Output+dry-run as used by the CLI, Mkdir-from-Markdown+dry-run,
// Mkdir-from-root+dry-run) on every forest of n rows with 0..2 opaque extensions: no file-system mutation; the
// report is, per root, the plain tree text followed by "\n<d> directories, <f> files\n" where d and f are the
// numbers of directories and files the real Mkdir then creates under that root in the same file-system model. The
// target directory exists or not (solver's choice).
func VerifC09() {
	n := verifN()
	lines, rows := wellFormedLines(n, verifName)
	nodes, roots := specForest(lines)
	for i, r := range roots {
		for j := 0; j < i; j++ {
			verifAssume(nodes[r].name != nodes[roots[j]].name)
		}
	}
	exts := c06Exts()
	// default branch strings, or four arbitrary ones (the report is the tree text of plain output WITH THE SAME strings)
	ld, li, md, mi := dLD, dLI, dMD, dMI
	custom := verifFlag("customBranches")
	if custom {
		ld, li, md, mi = verifStr("ld"), verifStr("li"), verifStr("md"), verifStr("mi")
	}
	// an encode option in the same call, in front of or behind WithDryRun: the dry run wins whatever the order
	foreign := 0
	if !custom {
		foreign = int(verifChoose("encodeOption", 0, 2))
	}
	bopts := func(o ...Option) []Option {
		if custom {
			o = append(o, WithBranchFormatLastNode(ld, li), WithBranchFormatIntermedialNode(md, mi))
		}
		switch foreign {
		case 1:
			o = append([]Option{WithEncodeYAML()}, o...)
		case 2:
			o = append(o, WithEncodeJSON())
		}
		return o
	}
	route := verifChoose("route", 0, 2)
	if route == 2 {
		verifAssume(len(roots) == 1)
	}
	vfsReset()
	if verifFlag("notarget") {
		// the target directory itself does not exist yet (a dry run must not make it either)
		vfsRemoveTarget()
	}
	vfsSeal()
	w := newVerifWriter()
	color.Output = w
	var err error
	verifContext("C09.dryrun")
	switch route {
	case 0:
		err = OutputFromMarkdown(w, &verifReader{lines: rows}, bopts(WithDryRun(), WithFileExtensions(c09Copy(exts)))...)
	case 1:
		err = MkdirFromMarkdown(&verifReader{lines: rows}, bopts(WithDryRun(), WithFileExtensions(c09Copy(exts)), WithTargetDir(vfsTarget()))...)
	case 2:
		var real []*Node
		for i := range nodes {
			if nodes[i].parent < 0 {
				real = append(real, NewRoot(nodes[i].name))
			} else {
				real = append(real, real[nodes[i].parent].Add(nodes[i].name))
			}
		}
		err = MkdirFromRoot(real[0], bopts(WithDryRun(), WithFileExtensions(c09Copy(exts)), WithTargetDir(vfsTarget()))...)
	}
	verifAssert(err == nil, "C09.nil")
	verifAssert(vfsTouched() == 0, "C09.pure")
	report := w.out
	// the real run, same tree, same extensions, same (untouched) file-system state
	verifContext("C09.real")
	e2 := MkdirFromMarkdown(&verifReader{lines: rows}, WithFileExtensions(c09Copy(exts)), WithTargetDir(vfsTarget()))
	verifAssert(e2 == nil, "C09.real.nil")
	want := ""
	for _, r := range roots {
		d, f := 0, 0
		for i := range nodes {
			if c08RootOf(nodes, i) == r {
				switch vfsKind(nodeRel(nodes, i)) {
				case 1:
					d++
				case 2:
					f++
				}
			}
		}
		want += specRender(nodes, r, ld, li, md, mi) + "\n" + c09Itoa(d) + " directories, " + c09Itoa(f) + " files\n"
	}
	verifObserve("report", report)
	verifAssert(report == want, "C09.report")
	verifReach("C09.end")
}
