//go:build verif

package gtree

import "errors"

func init() {
	verifRegister("VerifC05", VerifC05)
	verifRegister("VerifC05Iter", VerifC05Iter)
}

type vFact struct {
	name, branch, row, path string
	level                   uint
	hasChild                bool
}

func specFacts(nodes []vNode, i int, level uint, path string, ld, li, md, mi string, out *[]vFact) {
	f := vFact{name: nodes[i].name, level: level, hasChild: len(nodes[i].children) > 0}
	f.branch = specBranch(nodes, i, ld, li, md, mi)
	if nodes[i].parent < 0 {
		f.row = f.name
		f.path = f.name
	} else {
		f.row = f.branch + " " + f.name
		f.path = path + "/" + f.name
	}
	*out = append(*out, f)
	for _, c := range nodes[i].children {
		specFacts(nodes, c, level+1, f.path, ld, li, md, mi, out)
	}
}

var errVerifStop = errors.New("verif: stop here")

func c05CheckFacts(wn *WalkerNode, w vFact) {
	verifAssert(wn.Name() == w.name, "C05.name")
	verifAssert(wn.Branch() == w.branch, "C05.branch")
	verifAssert(wn.Row() == w.row, "C05.row")
	verifAssert(wn.Level() == w.level, "C05.level")
	verifAssert(wn.Path() == w.path, "C05.path")
	verifAssert(wn.HasChild() == w.hasChild, "C05.haschild")
}

// VerifC05: WalkFromMarkdown (callback form) on every forest of n rows with opaque branch strings: the visits are
// the reference facts in text-output order; the callback fails at a solver-chosen visit (or never): no further
// callback, and exactly that error is returned.
func VerifC05() {
	n := verifN()
	lines, rows := wellFormedLines(n, verifName)
	verifNote(shapeNote(lines))
	ld, li, md, mi := verifStr("ld"), verifStr("li"), verifStr("md"), verifStr("mi")
	nodes, roots := specForest(lines)
	var want []vFact
	for _, r := range roots {
		specFacts(nodes, r, 1, "", ld, li, md, mi, &want)
	}
	failAt := int(verifChoose("failAt", 0, uint(len(want)))) // == len(want): never fails
	visits := 0
	opts := []Option{WithBranchFormatLastNode(ld, li), WithBranchFormatIntermedialNode(md, mi)}
	if verifFlag("encodeOption") {
		opts = append(opts, WithEncodeJSON()) // an Output-only option: the walk must not be affected by it
	}
	verifContext("C05.walk")
	err := WalkFromMarkdown(&verifReader{lines: rows}, func(wn *WalkerNode) error {
		verifAssert(visits <= failAt, "C05.stop.nomore")
		if visits < len(want) {
			c05CheckFacts(wn, want[visits])
		} else {
			verifAssert(false, "C05.extra")
		}
		visits++
		if visits-1 == failAt {
			return errVerifStop
		}
		return nil
	}, opts...)
	if failAt < len(want) {
		verifAssert(err == errVerifStop, "C05.stop.err")
		verifAssert(visits == failAt+1, "C05.stop.count")
	} else {
		verifAssert(err == nil, "C05.nil")
		verifAssert(visits == len(want), "C05.all")
	}
	verifReach("C05.end")
}

// VerifC05Iter: the From-Root forms on programs of n nodes: callback form with a failing visit, iterator form
// (WalkIterFromRoot and its deprecated twin) with the consumer breaking out after a solver-chosen visit.
func VerifC05Iter() {
	n := verifN()
	root, _ := buildProgram(n-1, verifName, "C05.add")
	var order []*mNode
	mPreorder(root, &order)
	form := verifChoose("form", 0, 2)
	stopAt := int(verifChoose("stopAt", 0, uint(len(order)))) // == len: never
	seen := 0
	check := func(wn *WalkerNode) {
		verifAssert(seen <= stopAt, "C05.iter.nomore")
		if seen < len(order) {
			m := order[seen]
			verifAssert(wn.Name() == m.name, "C05.iter.name")
			verifAssert(wn.Row() == mRow(m, dLD, dLI, dMD, dMI), "C05.iter.row")
			verifAssert(wn.Branch() == mBranch(m, dLD, dLI, dMD, dMI), "C05.iter.branch")
			verifAssert(wn.Level() == mLevel(m), "C05.iter.level")
			verifAssert(wn.Path() == mPath(m), "C05.iter.path")
			verifAssert(wn.HasChild() == (len(m.children) > 0), "C05.iter.haschild")
		} else {
			verifAssert(false, "C05.iter.extra")
		}
	}
	verifContext("C05.iter")
	// options that belong to other operations (an encode option, a target directory, file extensions): a walk of a
	// fresh tree must not be affected by them
	var opts []Option
	switch verifChoose("foreignOption", 0, 3) {
	case 1:
		opts = append(opts, encOption(int(verifChoose("enc", 1, 3))))
	case 2:
		opts = append(opts, WithTargetDir("elsewhere"))
	case 3:
		opts = append(opts, WithFileExtensions([]string{verifStr("ext")}))
	}
	switch form {
	case 0:
		err := WalkFromRoot(root.real, func(wn *WalkerNode) error {
			check(wn)
			seen++
			if seen-1 == stopAt {
				return errVerifStop
			}
			return nil
		}, opts...)
		if stopAt < len(order) {
			verifAssert(err == errVerifStop, "C05.iter.stop.err")
		} else {
			verifAssert(err == nil, "C05.iter.nil")
		}
	case 1:
		for wn, err := range WalkIterFromRoot(root.real, opts...) {
			verifAssert(err == nil, "C05.iter.nil")
			check(wn)
			seen++
			if seen-1 == stopAt {
				break
			}
		}
	case 2:
		for wn, err := range WalkIterProgrammably(root.real, opts...) {
			verifAssert(err == nil, "C05.iter.nil")
			check(wn)
			seen++
			if seen-1 == stopAt {
				break
			}
		}
	}
	if stopAt < len(order) {
		verifAssert(seen == stopAt+1, "C05.iter.stop.count")
	} else {
		verifAssert(seen == len(order), "C05.iter.all")
	}
	verifReach("C05.iter.end")
}
