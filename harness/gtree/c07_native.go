//go:build verif

package gtree

import "path/filepath"

// native side: a real jail; verifFSCalls returns every entry of the jail that differs from the sealed pre-state,
// as an absolute path (so an entry created outside the target fails the lexical confinement check as well).
func c07Target() string {
	vfsReset()
	return vfsTarget()
}
func c07Seal() { vfsSeal() }

func verifFSCalls() []string {
	var out []string
	for _, k := range vfsDiff() {
		out = append(out, filepath.Join(vfsJail, k))
	}
	return out
}
