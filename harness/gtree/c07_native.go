//go:build verif

package gtree

import (
	"os"
	"path/filepath"
)

// native side: a real jail; verifFSCalls returns every entry of the jail that differs from the sealed pre-state,
// as an absolute path (so an entry created outside the target fails the lexical confinement check as well).
func c07Target() string {
	vfsReset()
	return vfsTarget()
}
func c07Seal() { vfsSeal() }

// verifFSKinds: for every entry verifFSCalls returns, "mkdir" if it is a directory now, "create" if a regular file.
func verifFSKinds() []string {
	var out []string
	for _, k := range vfsDiff() {
		if info, err := os.Lstat(filepath.Join(vfsJail, k)); err == nil && !info.IsDir() {
			out = append(out, "create")
		} else {
			out = append(out, "mkdir")
		}
	}
	return out
}

func verifFSCalls() []string {
	var out []string
	for _, k := range vfsDiff() {
		out = append(out, filepath.Join(vfsJail, k))
	}
	return out
}
