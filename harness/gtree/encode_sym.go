//go:build verif

package gtree

// encMatches (engine side): the encoder stubs render each Encode(v) as the bracket notation of v plus a newline
// in one Write, so the whole output must be the concatenation of the expected records in order.
func encMatches(kind int, out string, want []*rec) bool {
	exp := ""
	for i, r := range want {
		if kind == encYAML && i > 0 {
			exp += "---\n" // yaml.v3 separates the documents of one encoder
		}
		exp += recText(r) + "\n"
	}
	return out == exp
}

// encMatchesAnyOrder: as encMatches, the records may come in any order (massive mode). The massive-mode yaml
// spreader uses one encoder, so every document but the first written is preceded by the separator.
func encMatchesAnyOrder(kind int, out string, want []*rec) bool {
	var blocks []string
	for _, r := range want {
		b := recText(r) + "\n"
		if kind == encYAML {
			b = "---\n" + b
		}
		blocks = append(blocks, b)
	}
	if kind == encYAML && len(want) > 0 {
		out = "---\n" + out
	}
	return c10Perm(out, blocks)
}
