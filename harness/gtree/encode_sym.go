//go:build verif

package gtree

// encMatches (engine side): the encoder stubs render each Encode(v) as the bracket notation of v plus a newline
// in one Write, so the whole output must be the concatenation of the expected records in order.
func encMatches(kind int, out string, want []*rec) bool {
	exp := ""
	for _, r := range want {
		exp += recText(r) + "\n"
	}
	return out == exp
}
