//go:build verif

package gtree

import (
	"context"
	"io"
	"strings"
	"sync"
	"sync/atomic"
	"time"
)

// Native-only amplification used to CONFIRM schedule-dependent counterexamples the engine found for C11 (a leak or
// a missing return under some legal schedule is often not reproduced by replaying the small model on the real
// scheduler): the same operations under full back-pressure. 64 roots saturate every stage (10+10+10 workers and
// the unbuffered hand-overs), the sink (writer / callback) blocks, the context is cancelled while everything is
// blocked, the sink is released, the call must return and leave no goroutine behind. Never run unless the engine
// reported a counterexample; asserts the same ids as the symbolic harnesses.

func init() {
	verifRegister("VerifC11Stress", VerifC11Stress)
	verifRegister("VerifRaceStress", VerifRaceStress)
}

type c11Gate struct {
	mu      sync.Mutex
	entered int
	release chan struct{}
}

func (g *c11Gate) wait() {
	g.mu.Lock()
	g.entered++
	g.mu.Unlock()
	<-g.release
}

type c11GateWriter struct{ g *c11Gate }

func (w c11GateWriter) Write(p []byte) (int, error) {
	w.g.wait()
	return len(p), nil
}

func c11StressDoc(roots int, bad bool) string {
	var b strings.Builder
	for i := 0; i < roots; i++ {
		b.WriteString("- r")
		b.WriteString(c09ItoaNative(i))
		b.WriteString("\n  - c\n")
		if bad {
			b.WriteString("  -\n")
		}
	}
	return b.String()
}

func c09ItoaNative(n int) string {
	if n == 0 {
		return "0"
	}
	s := ""
	for n > 0 {
		s = string(rune('0'+n%10)) + s
		n /= 10
	}
	return s
}

func c11StressOne(op int, roots int, id string) {
	g := &c11Gate{release: make(chan struct{})}
	ctx, cancel := context.WithCancel(context.Background())
	defer cancel()
	done := make(chan error, 1)
	doc := c11StressDoc(roots, false)
	go func() {
		switch op {
		case 0:
			done <- OutputFromMarkdown(c11GateWriter{g}, strings.NewReader(doc), WithMassive(ctx))
		case 1:
			done <- WalkFromMarkdown(strings.NewReader(doc), func(*WalkerNode) error { g.wait(); return nil }, WithMassive(ctx))
		case 2:
			done <- OutputFromMarkdown(c11GateWriter{g}, strings.NewReader(doc), WithMassive(ctx), WithEncodeJSON())
		case 3:
			root := NewRoot("r")
			cur := root
			for i := 0; i < 8; i++ {
				cur = cur.Add("c")
			}
			done <- OutputFromRoot(c11GateWriter{g}, root, WithMassive(ctx))
		}
	}()
	time.Sleep(30 * time.Millisecond) // every stage is saturated and blocked on its hand-over by now
	cancel()
	time.Sleep(5 * time.Millisecond)
	close(g.release)
	select {
	case <-done:
	case <-time.After(5 * time.Second):
		verifAssert(false, "deadlock@C11.cancel")
		return
	}
	verifAssert(verifQuiesce() == 0, id)
}

// c11SlowReader: an endless-looking input that arrives row by row; it cancels the context itself from inside the
// 40th Read and counts how often it is read afterwards.
type c11SlowReader struct {
	cancel context.CancelFunc
	n      int
	after  int64
	done   bool
}

func (r *c11SlowReader) Read(p []byte) (int, error) {
	r.n++
	if r.done {
		atomic.AddInt64(&r.after, 1)
	}
	if r.n == 40 {
		r.done = true
		r.cancel()
	}
	if r.n > 4000 {
		return 0, io.EOF
	}
	time.Sleep(200 * time.Microsecond)
	row := "  - c\n"
	if r.n == 1 {
		row = "# h\n"
	}
	return copy(p, row), nil
}

// c11StressLongBlock: one heading and an input that keeps delivering list rows (a single block for the splitter);
// the context is cancelled from inside a Read; after the call has returned the input must not be consumed any further
func c11StressLongBlock() {
	ctx, cancel := context.WithCancel(context.Background())
	defer cancel()
	rd := &c11SlowReader{cancel: cancel}
	err := OutputFromMarkdown(newVerifWriter(), rd, WithMassive(ctx))
	verifAssert(err != nil, "C11.long.ctxerr.only")
	at := atomic.LoadInt64(&rd.after)
	time.Sleep(150 * time.Millisecond)
	verifAssert(atomic.LoadInt64(&rd.after)-at <= 1, "C11.stops/reader")
	verifAssert(verifQuiesce() == 0, "C11.noleak/long")
}

func VerifC11Stress() {
	c11StressLongBlock()
	for _, roots := range []int{1, 13, 31, 64} {
		c11StressOne(0, roots, "C11.noleak/cancel")
		c11StressOne(1, roots, "C11.noleak/cancel")
		c11StressOne(2, roots, "C11.noleak/cancel")
	}
	c11StressOne(3, 1, "C11.noleak/root")
	// many failing blocks in one stage
	for _, roots := range []int{3, 12, 40} {
		w := newVerifWriter()
		err := OutputFromMarkdown(w, strings.NewReader(c11StressDoc(roots, true)), WithMassive(context.Background()))
		verifAssert(err != nil, "C11.reported/parse")
		verifAssert(verifQuiesce() == 0, "C11.noleak/parse")
	}
}

// VerifRaceStress: native-only confirmation of the engine's happens-before race reports (race@...). Built with the
// Go race detector, every massive-mode operation runs on documents large enough to keep all workers of every stage
// busy, with sinks that are NOT safe for concurrent use (a plain verifWriter: the library has to serialise its
// writes) and a thread-safe callback. Nothing is asserted: the race detector's report is the confirmation.
func VerifRaceStress() {
	verifContext("C11.race")
	for _, roots := range []int{2, 3, 12, 40} {
		doc := c11StressDoc(roots, false)
		ctx := context.Background()
		OutputFromMarkdown(newVerifWriter(), strings.NewReader(doc), WithMassive(ctx))
		OutputFromMarkdown(newVerifWriter(), strings.NewReader(doc), WithMassive(ctx), WithEncodeJSON())
		OutputFromMarkdown(newVerifWriter(), strings.NewReader(doc), WithMassive(ctx), WithEncodeYAML())
		OutputFromMarkdown(newVerifWriter(), strings.NewReader(doc), WithMassive(ctx), WithDryRun(), WithFileExtensions([]string{"c"}))
		var mu sync.Mutex
		n := 0
		WalkFromMarkdown(strings.NewReader(doc), func(wn *WalkerNode) error { mu.Lock(); n += len(wn.Row()) + len(wn.Path()); mu.Unlock(); return nil }, WithMassive(ctx))
		vfsReset()
		vfsSeal()
		MkdirFromMarkdown(strings.NewReader(doc), WithMassive(ctx), WithTargetDir(vfsTarget()), WithFileExtensions([]string{"c"}))
		VerifyFromMarkdown(strings.NewReader(doc), WithMassive(ctx), WithTargetDir(vfsTarget()), WithStrictVerify())
		// malformed blocks: the error paths of every stage
		OutputFromMarkdown(newVerifWriter(), strings.NewReader(c11StressDoc(roots, true)), WithMassive(ctx))
		OutputFromMarkdown(newVerifWriter(), strings.NewReader(doc+"- x\n  - a/b\n"), WithMassive(ctx), WithDryRun())
		// heading roots
		OutputFromMarkdown(newVerifWriter(), strings.NewReader(strings.ReplaceAll(strings.ReplaceAll(doc, "  - ", "- "), "- r", "# r")), WithMassive(ctx))
	}
	root := NewRoot("r")
	cur := root
	for i := 0; i < 8; i++ {
		cur.Add("s")
		cur = cur.Add("c")
	}
	ctx := context.Background()
	OutputFromRoot(newVerifWriter(), root, WithMassive(ctx))
	OutputFromRoot(newVerifWriter(), root, WithMassive(ctx), WithEncodeJSON())
	WalkFromRoot(root, func(*WalkerNode) error { return nil }, WithMassive(ctx))
	vfsReset()
	vfsSeal()
	MkdirFromRoot(root, WithMassive(ctx), WithTargetDir(vfsTarget()))
	VerifyFromRoot(root, WithMassive(ctx), WithTargetDir(vfsTarget()))
	verifQuiesce()
}
