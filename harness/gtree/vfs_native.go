//go:build verif

package gtree

import (
	"fmt"
	"io/fs"
	"os"
	"path/filepath"
	"sort"
	"strings"
)

// File-system layer (native side): a real jail directory under $VERIF_JAIL with the target "T" inside and a
// sentinel sibling next to it; mutations are measured by comparing recursive snapshots of the whole jail.

var (
	vfsJail     string
	vfsBase     map[string]string
	vfsLongName bool
	vfsLongElem string
	vfsSeq      int
)

func vfsReset() {
	base := os.Getenv("VERIF_JAIL")
	if base == "" {
		base = os.TempDir()
	}
	vfsSeq++
	vfsJail = filepath.Join(base, fmt.Sprintf("jail%d", vfsSeq))
	os.RemoveAll(vfsJail)
	if err := os.MkdirAll(filepath.Join(vfsJail, "T"), 0o755); err != nil {
		panic(err)
	}
	os.MkdirAll(filepath.Join(vfsJail, "sentinel"), 0o755)
	os.WriteFile(filepath.Join(vfsJail, "sentinel", "keep"), []byte("x"), 0o644)
	vfsBase = nil
	vfsLongName = false
}

func vfsTarget() string { return filepath.Join(vfsJail, "T") }

func vfsTargetAsFile() {
	os.RemoveAll(vfsTarget())
	if err := os.WriteFile(vfsTarget(), []byte("a file"), 0o644); err != nil {
		panic(err)
	}
}

func vfsTargetAsDangling() {
	os.RemoveAll(vfsTarget())
	vfsSeq++
	if err := os.Symlink(filepath.Join(vfsJail, fmt.Sprintf("dangling%d", vfsSeq)), vfsTarget()); err != nil {
		panic(err)
	}
}

// vfsMakeLink: the directory T/rel (with everything beneath it) moves to a store outside the target and T/rel
// becomes a symbolic link to it.
func vfsMakeLink(rel []string) {
	p := filepath.Join(append([]string{vfsTarget()}, rel...)...)
	store := filepath.Join(vfsJail, "linkstore")
	os.MkdirAll(store, 0o755)
	vfsSeq++
	dst := filepath.Join(store, fmt.Sprintf("d%d", vfsSeq))
	if err := os.Rename(p, dst); err != nil {
		panic(err)
	}
	if err := os.Symlink(dst, p); err != nil {
		panic(err)
	}
}

func vfsRemoveTarget() { os.RemoveAll(vfsTarget()) }

func vfsAdd(rel []string, kind int) {
	p := filepath.Join(append([]string{vfsTarget()}, rel...)...)
	if kind == 1 {
		if err := os.MkdirAll(p, 0o755); err != nil {
			panic(err)
		}
		return
	}
	os.MkdirAll(filepath.Dir(p), 0o755)
	if kind == 4 {
		vfsSeq++
		if err := os.Symlink(filepath.Join(vfsJail, fmt.Sprintf("dangling%d", vfsSeq)), p); err != nil {
			panic(err)
		}
		return
	}
	if err := os.WriteFile(p, []byte("pre-existing"), 0o644); err != nil {
		panic(err)
	}
}

func vfsSnapshot() map[string]string {
	m := map[string]string{}
	filepath.WalkDir(vfsJail, func(p string, d fs.DirEntry, err error) error {
		if err != nil {
			return nil
		}
		info, ierr := d.Info()
		if ierr != nil {
			return nil
		}
		rel, _ := filepath.Rel(vfsJail, p)
		if info.IsDir() {
			m[rel] = "dir"
		} else {
			b, _ := os.ReadFile(p)
			m[rel] = fmt.Sprintf("file:%d:%x", info.Size(), b)
		}
		return nil
	})
	return m
}

func vfsSeal() { vfsBase = vfsSnapshot() }

func vfsDiff() []string {
	if vfsBase == nil {
		vfsSeal()
	}
	now := vfsSnapshot()
	var d []string
	for k, v := range now {
		if vfsBase[k] != v {
			d = append(d, k)
		}
	}
	for k := range vfsBase {
		if _, ok := now[k]; !ok {
			d = append(d, k)
		}
	}
	sort.Strings(d)
	return d
}

// vfsTouched: number of entries of the jail that differ from the sealed pre-state.
func vfsTouched() int { return len(vfsDiff()) }

func vfsTouchedOutside() int {
	n := 0
	for _, k := range vfsDiff() {
		if k != "T" && !strings.HasPrefix(k, "T"+string(filepath.Separator)) {
			n++
		}
	}
	return n
}

func vfsKind(rel []string) int {
	p := filepath.Join(append([]string{vfsTarget()}, rel...)...)
	info, err := os.Lstat(p)
	if err != nil {
		return 0
	}
	if info.IsDir() {
		return 1
	}
	if info.Mode()&os.ModeSymlink != 0 {
		if _, err := os.Stat(p); err != nil {
			return 4
		}
	}
	return 2
}

func vfsCount() int {
	n := 0
	filepath.WalkDir(vfsTarget(), func(p string, d fs.DirEntry, err error) error {
		if err == nil && p != vfsTarget() {
			n++
		}
		return nil
	})
	return n
}
