//go:build verif

package gtree

import (
	"context"
	"strings"
	"sync"
)

func init() {
	verifRegister("VerifC13Conc", VerifC13Conc)
}

// c13cDoc: a small forest whose names carry the worker's letter, with one arbitrary name byte
func c13cDoc(who string, b string) string {
	return "- " + who + "0\n  - " + who + "1" + b + "\n    - " + who + "2\n  - " + who + "3\n- " + who + "4\n  - " + who + "5\n"
}

func c13cTree(who string, b string) *Node {
	r := NewRoot(who + "0")
	c := r.Add(who + "1" + b)
	c.Add(who + "2")
	r.Add(who + "3")
	return r
}

// c13cOp: one library call on inputs that belong to the calling worker alone; the observable result as a string
func c13cOp(kind uint, who string, b string) string {
	res := ""
	var err error
	switch kind {
	case 0:
		w := newVerifWriter()
		err = OutputFromMarkdown(w, strings.NewReader(c13cDoc(who, b)))
		res = w.out
	case 1:
		w := newVerifWriter()
		err = OutputFromMarkdown(w, strings.NewReader(c13cDoc(who, b)), WithNoUseIterOfSimpleOutput())
		res = w.out
	case 2:
		err = WalkFromMarkdown(strings.NewReader(c13cDoc(who, b)), func(wn *WalkerNode) error {
			res += wn.Row() + "|" + wn.Path() + "\n"
			return nil
		})
	case 3:
		w := newVerifWriter()
		err = OutputFromRoot(w, c13cTree(who, b))
		res = w.out
	case 4:
		err = WalkFromRoot(c13cTree(who, b), func(wn *WalkerNode) error {
			res += wn.Row() + "|" + wn.Path() + "\n"
			return nil
		})
	case 5:
		w := newVerifWriter()
		err = OutputFromMarkdown(w, strings.NewReader(c13cDoc(who, b)), WithMassive(context.Background()))
		// massive mode may print the two roots in either order: normalise
		res = strings.Join(sortedBlocks(w.out, who), "")
	case 6:
		w := newVerifWriter()
		err = OutputFromMarkdown(w, strings.NewReader(c13cDoc(who, b)), WithDryRun(), WithFileExtensions([]string{"3"}))
		res = w.out
	case 7:
		// building a tree while the other worker builds or prints one, then printing it with custom branches
		w := newVerifWriter()
		err = OutputFromRoot(w, c13cTree(who, b), WithBranchFormatIntermedialNode("+-", ": "), WithBranchFormatLastNode("`-", "  "))
		res = w.out
	}
	if err != nil {
		res += "!" + err.Error()
	}
	return res
}

func sortedBlocks(out, who string) []string {
	var bl []string
	cur := ""
	for _, l := range strings.SplitAfter(out, "\n") {
		if l == "" {
			continue
		}
		if strings.HasPrefix(l, who) && cur != "" {
			bl = append(bl, cur)
			cur = ""
		}
		cur += l
	}
	if cur != "" {
		bl = append(bl, cur)
	}
	for i := 1; i < len(bl); i++ {
		for j := i; j > 0 && bl[j][:2] < bl[j-1][:2]; j-- { // root names are concrete
			bl[j], bl[j-1] = bl[j-1], bl[j]
		}
	}
	return bl
}

// VerifC13Conc: the "concurrently in other goroutines" clauses. Two workers run one library call each (solver-chosen
// kinds: From-Markdown text on both simple routes, walk, massive text, dry-run; From-Root text, custom-branch text and walk, each building its own tree
// first) on inputs that belong to them alone, at the same time. Each result equals what the same call gives when it
// runs alone, and -- the part that does not depend on the schedule -- the library code of the two calls never
// touches the same memory without synchronisation (happens-before detector, job flag race). The real bufio.Scanner,
// strings.Reader and (a model of) sync.Pool are executed, so state shared through buffers or pools is visible.
func VerifC13Conc() {
	ka := verifChoose("op", 0, 7)
	kb := verifChoose("op", 0, 7)
	ba := verifBytes("byte", 1)
	bb := verifBytes("byte", 1)
	verifAssume(ba[0] != '\n' && ba[0] != '\r' && ba[0] < 0x80 && ba[0] != '/' && ba[0] != 0)
	verifAssume(bb[0] != '\n' && bb[0] != '\r' && bb[0] < 0x80 && bb[0] != '/' && bb[0] != 0)
	verifContext("C13.conc")
	aloneA := c13cOp(ka, "a", ba)
	aloneB := c13cOp(kb, "b", bb)
	var gotA, gotB string
	var wg sync.WaitGroup
	wg.Add(2)
	go func() { defer wg.Done(); gotA = c13cOp(ka, "a", ba) }()
	go func() { defer wg.Done(); gotB = c13cOp(kb, "b", bb) }()
	wg.Wait()
	verifObserve("gotA", gotA)
	verifAssert(gotA == aloneA, "C13.conc.same")
	verifAssert(gotB == aloneB, "C13.conc.same")
	verifAssert(verifQuiesce() == 0, "C13.conc.noleak")
	verifReach("C13.conc.end")
}

func init() {
	verifRegister("VerifC13Md", VerifC13Md)
}

// c13mDoc: two root blocks (the second one three levels deep) in a solver-chosen notation: indentation by tabs or by
// blanks (one or two per level), roots as list rows or as # headings, bullet symbol of the indented rows
func c13mDoc(who string) []string {
	ind := "  "
	switch verifChoose("indent", 0, 2) {
	case 1:
		ind = "\t"
	case 2:
		ind = " "
	}
	b := []string{"- ", "* ", "+ "}[verifChoose("bullet", 0, 2)]
	if verifFlag("sharp") {
		return []string{"# " + who + "0", b + who + "1", "# " + who + "2", b + who + "3", ind + b + who + "4"}
	}
	return []string{"- " + who + "0", ind + b + who + "1", "- " + who + "2", ind + b + who + "3", ind + ind + b + who + "4"}
}

// VerifC13Md: independent From-Markdown calls one after the other (verifN() = number of calls, 2..3): every call is a
// massive-mode text output of a document in a notation of its own (tabs / one blank / two blanks, list roots / #
// roots, bullet symbols); whatever the pipeline keeps from one call to the next (pooled parsers, worker state, ...)
// must not show: each call returns nil and prints the blocks the simple mode prints for the same document.
func VerifC13Md() {
	n := verifN()
	verifContext("C13.md")
	for i := 0; i < n; i++ {
		who := string(rune('a' + i))
		rows := c13mDoc(who)
		ws, wm := newVerifWriter(), newVerifWriter()
		es := OutputFromMarkdown(ws, &verifReader{lines: rows})
		em := OutputFromMarkdown(wm, &verifReader{lines: rows}, WithMassive(context.Background()))
		verifAssert(es == nil, "C13.md.simple.nil")
		verifAssert(em == nil, "C13.md.nil")
		if es == nil && em == nil {
			a, b := sortedBlocks(ws.out, who), sortedBlocks(wm.out, who)
			same := len(a) == len(b)
			for k := 0; same && k < len(a); k++ {
				same = a[k] == b[k]
			}
			verifAssert(same, "C13.md.same")
		}
		verifAssert(verifQuiesce() == 0, "C13.md.noleak")
	}
	verifReach("C13.md.end")
}
