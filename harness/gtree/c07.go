//go:build verif

package gtree

import (
	"context"
	"io/fs"
	"path"
	"path/filepath"

	"github.com/fatih/color"
)

func init() {
	verifRegister("VerifC07", VerifC07)
	verifRegister("VerifLPath", VerifLPath)
}

// lexically inside target: p == target or target + "/" + rest where rest has no ".." element
func c07Within(target, p string) bool {
	if p == target {
		return true
	}
	if len(p) <= len(target)+1 || p[:len(target)+1] != target+"/" {
		return false
	}
	rest := p[len(target)+1:]
	start := 0
	for i := 0; i <= len(rest); i++ {
		if i == len(rest) || rest[i] == '/' {
			if rest[start:i] == ".." {
				return false
			}
			start = i + 1
		}
	}
	return true
}

func c07ValidElem(s string) bool {
	if s == "" || s == "." || s == ".." {
		return false
	}
	for i := 0; i < len(s); i++ {
		if s[i] == '/' {
			return false
		}
	}
	return true
}

// c07Name: 1..maxlen arbitrary ASCII bytes (no newline, no NUL: the OS rejects NUL itself).
func c07Name(maxlen int) string {
	l := int(verifChoose("len", 1, uint(maxlen)))
	name := verifBytes("name", l)
	for j := 0; j < len(name); j++ {
		verifAssume(name[j] != '\n' && name[j] < 0x80 && name[j] != 0)
	}
	verifAssume(name[len(name)-1] != '\r')
	return name
}

// VerifC07: byte level. Trees of 2..3 nodes (chain, or root with two children) whose names are arbitrary ASCII byte
// strings of length 1..L; real path.Join/Clean, filepath.Join, fs.ValidPath, strings code. Every Mkdir entry point
// (From-Markdown, From-Root, each real and dry-run, From-Markdown also with the massive option, with and without
// an extension). verifN() = 10*nodes + L.
// Assertions: every path handed to a mutating os call is lexically inside the target; a name that is not a single
// valid path element makes the call fail; and then no mutating call was made at all.
func VerifC07() {
	nn := verifN() / 10
	maxlen := verifN() % 10
	// shapes (depth per row): chain; root with two children; and forests with two roots (From-Markdown routes only):
	// root+child then a second root, two roots the second with a child, two childless roots
	var shapes [][]uint
	if nn == 1 {
		shapes = [][]uint{{0}}
	} else if nn == 2 {
		shapes = [][]uint{{0, 1}, {0, 0}}
	} else {
		shapes = [][]uint{{0, 1, 2}, {0, 1, 1}, {0, 1, 0}, {0, 0, 1}}
	}
	shape := verifChoose("shape", 0, uint(len(shapes)-1))
	depths := shapes[shape]
	var names []string
	allValid := true
	for i := 0; i < nn; i++ {
		nm := c07Name(maxlen)
		if !c07ValidElem(nm) {
			allValid = false
		}
		names = append(names, nm)
	}
	forest := false
	for i := 1; i < nn; i++ {
		if depths[i] == 0 {
			forest = true
			verifAssume(names[0] != names[i]) // distinct roots
		}
	}
	if nn == 3 && depths[1] == 1 && depths[2] == 1 {
		verifAssume(names[1] != names[2])
	}
	depth := func(i int) uint { return depths[i] }
	var exts []string
	if verifFlag("ext") {
		exts = []string{".x"}
	}
	route := verifChoose("route", 0, 11)
	if forest && (route == 2 || route == 3 || route == 7 || route == 8 || route == 10 || route == 11) {
		verifAssume(false) // From-Root takes one root
	}
	// an encode option on a mkdir call selects the no-op grower for Output; it must not switch validation off
	withEnc := route != 4 && route < 9 && verifFlag("encodeOption")
	target := c07Target()
	c07Seal()
	w := newVerifWriter()
	color.Output = w
	var err error
	verifContext("C07.mkdir")
	mdRows := func() []string {
		// notation bytes as a literal prefix: the massive-mode splitter looks at the first byte of a row
		var rows []string
		for i, nm := range names {
			pre := "- "
			for k := uint(0); k < depth(i); k++ {
				pre = "  " + pre
			}
			rows = append(rows, verifRow(pre, 0, depth(i), nm))
		}
		return rows
	}
	switch route {
	case 0, 1, 5, 6:
		opts := []Option{WithTargetDir(target), WithFileExtensions(exts)}
		if withEnc {
			opts = append(opts, WithEncodeJSON())
		}
		if route == 1 || route == 6 {
			opts = append(opts, WithDryRun())
		}
		if route >= 5 {
			opts = append(opts, WithMassive(context.Background()))
		}
		err = MkdirFromMarkdown(&verifReader{lines: mdRows()}, opts...)
	case 2, 3, 7, 8:
		root := NewRoot(names[0])
		at := []*Node{root}
		for i := 1; i < nn; i++ {
			c := at[depths[i]-1].Add(names[i])
			at = append(at[:depths[i]], c)
		}
		// the same tree may have been printed or walked before (operations that assemble branches and paths without
		// validating names): what they leave in the nodes must not spare the mkdir call its own validation
		pregrow := uint(0)
		if (route == 2 || route == 7) && verifN()%10 <= 2 {
			// (names of up to two bytes are enough for '..', '.', '/' and 'a/'; the three-byte jobs stay as they were)
			pregrow = verifChoose("pregrow", 0, 2)
		}
		switch pregrow {
		case 1:
			_ = OutputFromRoot(newVerifWriter(), root)
		case 2:
			_ = WalkFromRoot(root, func(*WalkerNode) error { return nil })
		}
		opts := []Option{WithTargetDir(target), WithFileExtensions(exts)}
		if withEnc {
			opts = append(opts, WithEncodeYAML())
		}
		if route == 3 || route == 8 {
			opts = append(opts, WithDryRun())
		}
		if route >= 7 {
			opts = append(opts, WithMassive(context.Background()))
		}
		err = MkdirFromRoot(root, opts...)
	case 4: // the CLI's dry-run route
		err = OutputFromMarkdown(w, &verifReader{lines: mdRows()}, WithDryRun(), WithFileExtensions(exts))
	case 9: // the same through the pipeline
		err = OutputFromMarkdown(w, &verifReader{lines: mdRows()}, WithDryRun(), WithFileExtensions(exts), WithMassive(context.Background()))
	case 10, 11: // Output of a programmatic tree with the dry-run option, simple and massive
		root := NewRoot(names[0])
		at := []*Node{root}
		for i := 1; i < nn; i++ {
			c := at[depths[i]-1].Add(names[i])
			at = append(at[:depths[i]], c)
		}
		opts := []Option{WithDryRun(), WithFileExtensions(exts)}
		if route == 11 {
			opts = append(opts, WithMassive(context.Background()))
		}
		err = OutputFromRoot(w, root, opts...)
	}
	calls := verifFSCalls()
	for _, p := range calls {
		verifAssert(c07Within(target, p), "C07.inside")
	}
	if route == 1 || route == 3 || route == 4 || route == 6 || route == 8 || route >= 9 {
		verifAssert(len(calls) == 0, "C07.dryrun.nothing")
	}
	if !allValid {
		verifAssert(err != nil, "C07.reject")
		if route < 5 || route == 10 {
			// without the massive option nothing at all is created
			verifAssert(len(calls) == 0, "C07.nothing")
		}
	} else {
		verifAssert(err == nil, "C07.accept")
	}
	verifReach("C07.end")
}

// VerifLPath (L-path): the contracts used for path.Join / filepath.Join / fs.ValidPath at tree level, on the real
// std code: for elements that are single valid path elements (1..L arbitrary ASCII bytes, no '/', not "." / ".."),
// Join is concatenation with '/' (empty arguments dropped) and the result is a valid path. verifN() = 10*elems + L.
func VerifLPath() {
	ne := verifN() / 10
	maxlen := verifN() % 10
	var elems []string
	want := ""
	for i := 0; i < ne; i++ {
		e := ""
		if i == 0 || !verifFlag("empty") {
			e = c07Name(maxlen)
			verifAssume(c07ValidElem(e))
			if want != "" {
				want += "/"
			}
			want += e
		}
		elems = append(elems, e)
	}
	verifAssert(path.Join(elems...) == want, "LPath.join")
	verifAssert(fs.ValidPath(want), "LPath.valid")
	verifAssert(filepath.Join("T", want) == "T/"+want, "LPath.fjoin")
	verifAssert(filepath.Join("T", want+"/") == "T/"+want, "LPath.fjoin.trailing")
	verifReach("LPath.end")
}
