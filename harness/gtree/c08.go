//go:build verif

package gtree

import "context"

func init() {
	verifRegister("VerifC08", VerifC08)
	verifRegister("VerifC08Mkdir", VerifC08Mkdir)
}

func c08Contains(list []string, s string) bool {
	for _, x := range list {
		if x == s {
			return true
		}
	}
	return false
}

func c08RootOf(nodes []vNode, i int) int {
	for nodes[i].parent >= 0 {
		i = nodes[i].parent
	}
	return i
}

func c08Path(target string, rel []string) string {
	p := target
	for _, e := range rel {
		p += "/" + e
	}
	return p
}

// VerifC08: verify against an arbitrary directory state. Forest of n rows (names single path elements, distinct
// roots); each node path present or not (downward closed; a childless present node may be a file or a directory,
// a root may be a file, the first root may be a symbolic link to a directory), up to two extra entries at solver-chosen places beneath present directories; strict or not;
// From-Markdown (forest) or From-Root (first tree of the forest, built with NewRoot/Add).
// c08ByteName: a name of 1..2 bytes over a small alphabet that has bytes on both sides of '/' in byte order ('-' and
// '.' sort below it, '0' and 'a' above), so that the order of a directory listing (lexical per directory) and the
// string order of full paths can disagree; a single valid path element.
// c08FixedLen (verifN() >= 200, the quick variant): every name has one byte except every third one drawn, which has two
var c08FixedLen bool
var c08NameSeq int

func c08ByteName(label string) string {
	l := 1
	if c08FixedLen {
		c08NameSeq++
		if c08NameSeq%3 == 0 {
			l = 2
		}
	} else {
		l = int(verifChoose("len", 1, 2))
	}
	nm := verifBytes(label, l)
	for i := 0; i < len(nm); i++ {
		verifAssume(c08Alphabet[nm[i]] == 1) // one constraint per byte (a table lookup), not a path split per alternative
	}
	verifAssume(nm != "." && nm != "..")
	return nm
}

var c08Alphabet = [256]uint8{'-': 1, '.': 1, '0': 1, 'a': 1}

func VerifC08() {
	n := verifN() % 10
	maxExtras := uint((verifN() / 10) % 10) // verifN() = 100*bytes + 10*extras + rows
	// byte level (verifN() >= 100): names are symbolic bytes, the paths go through the real filepath code, and the
	// directory listing of the model is in the real order: fs.WalkDir visits the entries of a directory sorted by name
	byteLevel := verifN() >= 100
	c08FixedLen, c08NameSeq = verifN() >= 200, 0
	nameFn := verifName
	if byteLevel {
		nameFn = c08ByteName
	}
	lines, rows := wellFormedLines(n, nameFn)
	nodes, roots := specForest(lines)
	for i, r := range roots {
		for j := 0; j < i; j++ {
			verifAssume(nodes[r].name != nodes[roots[j]].name)
		}
	}
	fromRoot := !byteLevel && verifFlag("fromRoot")
	if fromRoot {
		verifAssume(len(roots) == 1)
	}
	vfsReset()
	// which node paths exist (downward closed), and as what
	present := make([]bool, len(nodes))
	isFile := make([]bool, len(nodes))
	for i := range nodes {
		// byte level: the subject is the order of the listing, not the subsets: at most the last node is missing
		pres := (byteLevel && i < len(nodes)-1) || verifFlag("present")
		if nodes[i].parent >= 0 && (!present[nodes[i].parent] || isFile[nodes[i].parent]) {
			if pres {
				verifAssume(false) // cannot exist beneath a missing node or a file
			}
		}
		present[i] = pres
		// a present node may be a regular file; if the tree gives it children they cannot exist then (tree level only)
		if pres && !byteLevel && verifFlag("asFile") {
			isFile[i] = true
		}
	}
	// extras: beneath a present directory node, with a name different from that node's children; a directory or a
	// regular file; listed by the directory walk before or after the node's own children (the real order is lexical)
	type extraT struct {
		root, at, kind int
		first          bool
		rel            []string
		path           string
	}
	var extras []extraT
	nx := int(verifChoose("extras", 0, maxExtras))
	for k := 0; k < nx; k++ {
		at := int(verifChoose("extraAt", 0, uint(len(nodes)-1)))
		if !present[at] || isFile[at] {
			verifAssume(false)
		}
		x := nameFn("extra")
		for _, c := range nodes[at].children {
			verifAssume(nodes[c].name != x)
		}
		rel := append(nodeRel(nodes, at), x)
		p := c08Path(vfsTarget(), rel)
		for _, e := range extras {
			verifAssume(e.path != p)
		}
		extras = append(extras, extraT{root: c08RootOf(nodes, at), at: at, kind: int(verifChoose("extraKind", 1, 2)), first: !byteLevel && verifFlag("extraFirst"), rel: rel, path: p})
	}
	// the directory state, in walk order: a node, the extras that sort before its children, its subtree, the others
	// (tree level: the position of an extra is a flag; byte level: everything beneath a directory in the order of the
	// names, as a real directory listing is)
	var addNode func(i int)
	addNode = func(i int) {
		if !present[i] {
			return
		}
		kind := 1
		if isFile[i] {
			kind = 2
		}
		vfsAdd(nodeRel(nodes, i), kind)
		if byteLevel {
			type ent struct {
				name  string
				child int // node index, or -1 for an extra
				extra int
			}
			var ents []ent
			for _, c := range nodes[i].children {
				if present[c] {
					ents = append(ents, ent{nodes[c].name, c, -1})
				}
			}
			for k, e := range extras {
				if e.at == i {
					ents = append(ents, ent{e.rel[len(e.rel)-1], -1, k})
				}
			}
			for a := 1; a < len(ents); a++ {
				for b := a; b > 0 && ents[b].name < ents[b-1].name; b-- {
					ents[b], ents[b-1] = ents[b-1], ents[b]
				}
			}
			for _, e := range ents {
				if e.child >= 0 {
					addNode(e.child)
				} else {
					vfsAdd(extras[e.extra].rel, extras[e.extra].kind)
				}
			}
			return
		}
		for _, e := range extras {
			if e.at == i && e.first {
				vfsAdd(e.rel, e.kind)
			}
		}
		for _, c := range nodes[i].children {
			addNode(c)
		}
		for _, e := range extras {
			if e.at == i && !e.first {
				vfsAdd(e.rel, e.kind)
			}
		}
	}
	for _, r := range roots {
		addNode(r)
	}
	if !byteLevel && nx == 0 && verifFlag("strayTop") {
		// an entry of the target directory that belongs to no root: none of Verify's business, strict or not
		stray := verifName("stray")
		for _, r := range roots {
			verifAssume(stray != nodes[r].name)
		}
		vfsAdd([]string{stray}, int(verifChoose("strayKind", 1, 2)))
	}
	if present[roots[0]] && !isFile[roots[0]] && !byteLevel && verifFlag("rootLink") {
		// the first root is a symbolic link to a directory (which holds everything listed beneath it): it exists, and
		// so does what is beneath it
		vfsMakeLink(nodeRel(nodes, roots[0]))
	}
	strict := verifFlag("strict")
	vfsSeal()
	opts := []Option{WithTargetDir(vfsTarget())}
	if strict {
		opts = append(opts, WithStrictVerify())
	}
	var err error
	verifContext("C08.verify")
	if fromRoot {
		var real []*Node
		for i := range nodes {
			if nodes[i].parent < 0 {
				real = append(real, NewRoot(nodes[i].name))
			} else {
				real = append(real, real[nodes[i].parent].Add(nodes[i].name))
			}
		}
		err = VerifyFromRoot(real[0], opts...)
	} else {
		err = VerifyFromMarkdown(&verifReader{lines: rows}, opts...)
	}
	verifAssert(vfsTouched() == 0, "C08.readonly")
	// oracle
	first := -1
	for _, r := range roots {
		differs := false
		for i := range nodes {
			if c08RootOf(nodes, i) == r && !present[i] {
				differs = true
			}
		}
		if strict {
			for _, e := range extras {
				if e.root == r {
					differs = true
				}
			}
		}
		if differs {
			first = r
			break
		}
	}
	cls := "/same"
	if first >= 0 {
		cls = "/differs"
	}
	verifAssert((err == nil) == (first < 0), "C08.iff"+cls)
	if err != nil && first >= 0 {
		ve, ok := err.(verifyError)
		verifAssert(ok, "C08.type")
		if ok {
			var wantMissing, wantExtra []string
			for i := range nodes {
				if c08RootOf(nodes, i) == first && !present[i] {
					wantMissing = append(wantMissing, c08Path(vfsTarget(), nodeRel(nodes, i)))
				}
			}
			if strict {
				for _, e := range extras {
					if e.root == first {
						wantExtra = append(wantExtra, e.path)
					}
				}
			}
			for _, p := range ve.noExists {
				verifAssert(c08Contains(wantMissing, p), "C08.sound.missing")
			}
			for _, p := range wantMissing {
				verifAssert(c08Contains(ve.noExists, p), "C08.exact.missing")
			}
			verifAssert(len(ve.noExists) == len(wantMissing), "C08.exact.missing.count")
			if strict {
				for _, p := range ve.extra {
					verifAssert(c08Contains(wantExtra, p), "C08.sound.extra")
				}
				for _, p := range wantExtra {
					verifAssert(c08Contains(ve.extra, p), "C08.exact.extra")
				}
				verifAssert(len(ve.extra) == len(wantExtra), "C08.exact.extra.count")
			}
			// the public text is exactly the two documented lists
			msg := ""
			if strict && len(ve.extra) != 0 {
				msg += "Extra paths exist:\n"
				for _, p := range ve.extra {
					msg += "\t" + p + "\n"
				}
			}
			if len(ve.noExists) != 0 {
				msg += "Required paths does not exist:\n"
				for _, p := range ve.noExists {
					msg += "\t" + p + "\n"
				}
			}
			verifAssert(err.Error()+"\n" == msg, "C08.text")
		}
	}
	verifReach("C08.end")
}

// VerifC08Mkdir: a tree just created by Mkdir (any extension list, so leaves and even roots may be files)
// verifies strictly; both families.
func VerifC08Mkdir() {
	n := verifN()
	lines, rows := wellFormedLines(n, verifName)
	nodes, roots := specForest(lines)
	for i, r := range roots {
		for j := 0; j < i; j++ {
			verifAssume(nodes[r].name != nodes[roots[j]].name)
		}
	}
	exts := c06Exts()
	vfsReset()
	vfsSeal()
	verifContext("C08.mkdir")
	e1 := MkdirFromMarkdown(&verifReader{lines: rows}, WithTargetDir(vfsTarget()), WithFileExtensions(exts))
	verifAssert(e1 == nil, "C08.mkdir.made")
	before := vfsCount()
	e2 := VerifyFromMarkdown(&verifReader{lines: rows}, WithTargetDir(vfsTarget()), WithStrictVerify())
	verifAssert(e2 == nil, "C08.mkdir.verifies")
	verifAssert(vfsCount() == before, "C08.mkdir.readonly")
	verifReach("C08.mkdir.end")
}

func init() {
	verifRegister("VerifC08Env", VerifC08Env)
}

// VerifC08Env: Verify in an environment in which no node path can exist: the target directory is a regular file, or
// is not there at all. Forests of n rows, From-Markdown (simple and massive) and From-Root, strict or not: the call
// returns a non-nil error (nil would claim that every node path exists) and changes nothing.
func VerifC08Env() {
	n := verifN()
	lines, rows := wellFormedLines(n, verifName)
	nodes, roots := specForest(lines)
	vfsReset()
	asFile := verifFlag("targetIsFile")
	if asFile {
		vfsTargetAsFile()
	} else {
		vfsRemoveTarget()
	}
	vfsSeal()
	opts := []Option{WithTargetDir(vfsTarget())}
	if verifFlag("strict") {
		opts = append(opts, WithStrictVerify())
	}
	var err error
	verifContext("C08.env")
	switch verifChoose("route", 0, 2) {
	case 0:
		err = VerifyFromMarkdown(&verifReader{lines: rows}, opts...)
	case 1:
		err = VerifyFromMarkdown(&verifReader{lines: rows}, append(opts, WithMassive(context.Background()))...)
	case 2:
		verifAssume(len(roots) == 1)
		var real []*Node
		for i := range nodes {
			if nodes[i].parent < 0 {
				real = append(real, NewRoot(nodes[i].name))
			} else {
				real = append(real, real[nodes[i].parent].Add(nodes[i].name))
			}
		}
		err = VerifyFromRoot(real[0], opts...)
	}
	cls := "/notarget"
	if asFile {
		cls = "/targetisfile"
	}
	verifAssert(err != nil, "C08.env.reported"+cls)
	verifAssert(vfsTouched() == 0, "C08.env.readonly")
	verifAssert(verifQuiesce() == 0, "C08.env.noleak")
	verifReach("C08.env.end")
}
