//go:build verif

package gtree

import (
	"github.com/fatih/color"

	wasm "github.com/ddddddO/gtree/zz_verif_wasm"
)

func init() {
	verifRegister("VerifC17", VerifC17)
	verifRegister("VerifC17WF", VerifC17WF)
}

// VerifC17: the tinywasm file set (regenerated from /repo on every run as package zz_verif_wasm: every file whose
// build constraint holds under the tinywasm tag, shared files included) against the default build, same symbols:
// documents of n rows of every class (item at any depth 0..n, blank, no-bullet, empty text), options text with 4
// opaque branch strings / JSON / dry-run with 0..1 opaque extension. Same accept/reject decision; identical output
// whenever accepted.
func VerifC17() {
	n := verifN()
	var rows1, rows2 []string
	unitKnown := false
	for i := 0; i < n; i++ {
		kind := int(verifChoose("kind", 0, 3))
		var d uint
		if kind != 1 {
			if unitKnown {
				d = verifChoose("depth", 0, uint(n))
			} else {
				d = verifChoose("depth", 0, 1)
			}
			if d > 0 {
				unitKnown = true
			}
		}
		name := verifName("name")
		rows1 = append(rows1, verifRow("", kind, d, name))
		rows2 = append(rows2, verifRow("", kind, d, name))
	}
	c17Compare(rows1, rows2, "any")
}

func c17Compare(rows1, rows2 []string, tag string) {
	mode := verifChoose("mode", 0, 2)
	w1, w2 := newVerifWriter(), newVerifWriter()
	var err1, err2 error
	verifContext("C17.output")
	switch mode {
	case 0:
		ld, li, md, mi := verifStr("ld"), verifStr("li"), verifStr("md"), verifStr("mi")
		err1 = Output(w1, &verifReader{lines: rows1}, WithBranchFormatLastNode(ld, li), WithBranchFormatIntermedialNode(md, mi))
		err2 = wasm.Output(w2, &verifReader{lines: rows2}, wasm.WithBranchFormatLastNode(ld, li), wasm.WithBranchFormatIntermedialNode(md, mi))
	case 1:
		err1 = Output(w1, &verifReader{lines: rows1}, WithEncodeJSON())
		err2 = wasm.Output(w2, &verifReader{lines: rows2}, wasm.WithEncodeJSON())
	case 2:
		var exts []string
		if verifFlag("ext") {
			exts = []string{verifStr("ext")}
		}
		color.Output = w1
		err1 = Output(w1, &verifReader{lines: rows1}, WithDryRun(), WithFileExtensions(exts))
		err2 = wasm.Output(w2, &verifReader{lines: rows2}, wasm.WithDryRun(), wasm.WithFileExtensions(exts))
	}
	cls := []string{"/text", "/json", "/dryrun"}[mode]
	verifAssert((err1 == nil) == (err2 == nil), "C17.acc."+tag+cls)
	if err1 == nil && err2 == nil {
		if mode != 1 {
			verifObserve("out", w1.out)
		}
		verifAssert(w1.out == w2.out, "C17.out."+tag+cls)
	}
	verifReach("C17.end")
}

// VerifC17WF: well-formed forests only (every shape of n rows, merged sibling names), so that every path compares
// two accepted outputs: text with opaque branch strings, JSON record, dry-run report.
func VerifC17WF() {
	n := verifN()
	_, rows1 := wellFormedLines(n, verifName)
	rows2 := append([]string{}, rows1...)
	c17Compare(rows1, rows2, "wf")
}
