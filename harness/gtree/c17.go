//go:build verif

package gtree

import (
	"strings"

	"github.com/fatih/color"

	wasm "github.com/ddddddO/gtree/zz_verif_wasm"
)

func init() {
	verifRegister("VerifC17", VerifC17)
	verifRegister("VerifC17WF", VerifC17WF)
}

// VerifC17: the tinywasm file set (regenerated from /repo on every run as package zz_verif_wasm: every file whose
// build constraint holds under the tinywasm tag, shared files included) against the default build, same symbols:
// documents of n rows: item rows at any depth up to two levels below the previous row (so level jumps and an
// indented first row occur), at most one blank / no-bullet / empty-text row at any position; options text with 4
// opaque branch strings / JSON / dry-run with 0..1 opaque extension. Same accept/reject decision; identical output
// whenever accepted.
func VerifC17() {
	n := verifN()
	var rows1, rows2 []string
	unitKnown := false
	prev := -1
	badAt := int(verifChoose("badAt", 0, uint(n))) // n: no blank / malformed row
	for i := 0; i < n; i++ {
		name := verifName("name")
		if i == badAt {
			kind := int(verifChoose("badKind", 1, 3)) // blank, no bullet, empty text
			rows1 = append(rows1, verifRow("", kind, 0, name))
			rows2 = append(rows2, verifRow("", kind, 0, name))
			continue
		}
		// item rows: any depth up to two levels below the previous one (level jumps included); the first indented
		// row of a document defines the unit, so its depth is 1
		var d uint
		if unitKnown {
			d = verifChoose("depth", 0, uint(prev+2))
		} else {
			d = verifChoose("depth", 0, 1)
		}
		if d > 0 {
			unitKnown = true
		}
		prev = int(d)
		rows1 = append(rows1, verifRow("", 0, d, name))
		rows2 = append(rows2, verifRow("", 0, d, name))
	}
	c17Compare(rows1, rows2, "any")
}

func c17Compare(rows1, rows2 []string, tag string) {
	mode := verifChoose("mode", 0, 2)
	w1, w2 := newVerifWriter(), newVerifWriter()
	if verifFlag("refusingWriter") {
		// the output stream refuses its first write (the two variants buffer differently; both must report it)
		w1.failAt, w2.failAt = 0, 0
	}
	var err1, err2 error
	verifContext("C17.output")
	switch mode {
	case 0:
		ld, li, md, mi := verifStr("ld"), verifStr("li"), verifStr("md"), verifStr("mi")
		err1 = Output(w1, &verifReader{lines: rows1}, WithBranchFormatLastNode(ld, li), WithBranchFormatIntermedialNode(md, mi))
		err2 = wasm.Output(w2, &verifReader{lines: rows2}, wasm.WithBranchFormatLastNode(ld, li), wasm.WithBranchFormatIntermedialNode(md, mi))
	case 1:
		err1 = Output(w1, &verifReader{lines: rows1}, WithEncodeJSON())
		err2 = wasm.Output(w2, &verifReader{lines: rows2}, wasm.WithEncodeJSON())
	case 2:
		var exts []string
		if verifFlag("ext") {
			exts = []string{verifStr("ext")}
		}
		color.Output = w1
		if verifFlag("dryrunWithEncode") {
			// the dry run together with an encode option: the dry run decides what is printed, in both variants
			err1 = Output(w1, &verifReader{lines: rows1}, WithDryRun(), WithFileExtensions(exts), WithEncodeJSON())
			err2 = wasm.Output(w2, &verifReader{lines: rows2}, wasm.WithDryRun(), wasm.WithFileExtensions(exts), wasm.WithEncodeJSON())
		} else {
			err1 = Output(w1, &verifReader{lines: rows1}, WithDryRun(), WithFileExtensions(exts))
			err2 = wasm.Output(w2, &verifReader{lines: rows2}, wasm.WithDryRun(), wasm.WithFileExtensions(exts))
		}
	}
	cls := []string{"/text", "/json", "/dryrun"}[mode]
	verifAssert((err1 == nil) == (err2 == nil), "C17.acc."+tag+cls)
	if err1 == nil && err2 == nil {
		if mode != 1 {
			verifObserve("out", w1.out)
		}
		verifAssert(w1.out == w2.out, "C17.out."+tag+cls)
	}
	if w1.failAt == 0 && mode != 1 {
		// the call after a refused one (same process, healthy writers, default text): what the refused call left behind
		// in either variant must not show
		w3, w4 := newVerifWriter(), newVerifWriter()
		e3 := Output(w3, &verifReader{lines: rows1})
		e4 := wasm.Output(w4, &verifReader{lines: rows2})
		verifAssert((e3 == nil) == (e4 == nil), "C17.acc."+tag+"/after-refusal")
		if e3 == nil && e4 == nil {
			verifAssert(w3.out == w4.out, "C17.out."+tag+"/after-refusal")
		}
	}
	verifReach("C17.end")
}

// VerifC17WF: well-formed forests only (every shape of n rows, merged sibling names), so that every path compares
// two accepted outputs: text with opaque branch strings, JSON record, dry-run report.
func VerifC17WF() {
	n := verifN()
	_, rows1 := wellFormedLines(n, verifName)
	rows2 := append([]string{}, rows1...)
	c17Compare(rows1, rows2, "wf")
}

func init() {
	verifRegister("VerifC17Names", VerifC17Names)
}

// VerifC17Names: byte level. Forests of 2..3 rows whose names are 1..L arbitrary ASCII bytes (so "." / ".." /
// names with '/' occur, as root and as child): text, JSON and dry-run (with and without an extension) through the
// real path code of both variants: same accept/reject decision, identical bytes. verifN() = 10*rows + L.
func VerifC17Names() {
	nn := verifN() / 10
	maxlen := verifN() % 10
	var shapes [][]uint
	if nn == 2 {
		shapes = [][]uint{{0, 1}, {0, 0}}
	} else {
		shapes = [][]uint{{0, 1, 2}, {0, 1, 1}, {0, 1, 0}, {0, 0, 1}}
	}
	depths := shapes[verifChoose("shape", 0, uint(len(shapes)-1))]
	var rows1, rows2 []string
	for i := 0; i < nn; i++ {
		l := int(verifChoose("len", 1, uint(maxlen)))
		name := verifBytes("name", l)
		for j := 0; j < len(name); j++ {
			verifAssume(name[j] != '\n' && name[j] < 0x80 && name[j] != 0)
		}
		verifAssume(name[len(name)-1] != '\r')
		pre := "- "
		for k := uint(0); k < depths[i]; k++ {
			pre = "  " + pre
		}
		r := verifRow(pre, 0, depths[i], name)
		rows1 = append(rows1, r)
		rows2 = append(rows2, r)
	}
	mode := verifChoose("mode", 0, 2)
	w1, w2 := newVerifWriter(), newVerifWriter()
	var err1, err2 error
	verifContext("C17.names")
	switch mode {
	case 0:
		err1 = Output(w1, &verifReader{lines: rows1})
		err2 = wasm.Output(w2, &verifReader{lines: rows2})
	case 1:
		err1 = Output(w1, &verifReader{lines: rows1}, WithEncodeJSON())
		err2 = wasm.Output(w2, &verifReader{lines: rows2}, wasm.WithEncodeJSON())
	case 2:
		var exts []string
		if verifFlag("ext") {
			exts = []string{".x"}
		}
		color.Output = w1
		err1 = Output(w1, &verifReader{lines: rows1}, WithDryRun(), WithFileExtensions(exts))
		err2 = wasm.Output(w2, &verifReader{lines: rows2}, wasm.WithDryRun(), wasm.WithFileExtensions(exts))
	}
	cls := []string{"/text", "/json", "/dryrun"}[mode]
	verifAssert((err1 == nil) == (err2 == nil), "C17.acc.names"+cls)
	if err1 == nil && err2 == nil {
		verifAssert(w1.out == w2.out, "C17.out.names"+cls)
	}
	verifReach("C17.names.end")
}

func init() {
	verifRegister("VerifC17Long", VerifC17Long)
}

// VerifC17Long: the scanner's line limit in both variants, on the REAL bufio.Scanner (job flag realscan): one root
// row at the limit (65535 bytes fit with their newline, one byte more does not) or at twice the limit, one arbitrary
// name byte, optionally a short second root; or a document of twenty 60000-byte roots (1.2 MB in all); text output.
// Same accept/reject decision, same output.
func VerifC17Long() {
	b := verifBytes("byte", 1)
	verifAssume(b[0] != '\n' && b[0] != '\r' && b[0] < 0x80)
	n := 65535 - 2 - 1
	full := verifN() > 0 // quick tier: the two rows around the limit only
	maxLen := uint(1)
	if full {
		maxLen = 2
	}
	switch verifChoose("len", 0, maxLen) {
	case 1:
		n++
	case 2:
		n = 2*65536 - 3 - 1
	}
	doc := "- " + strings.Repeat("a", n) + b + "\n"
	if full && verifFlag("second") {
		doc += "- z\n"
	}
	if verifFlag("bigDocument") {
		// total size instead of row size: twenty roots of 60000 bytes each (1.2 MB, every row within the line limit)
		doc = ""
		for i := 0; i < 20; i++ {
			doc += "- " + strings.Repeat(string(rune('a'+i)), 60000) + "\n"
		}
		doc += "- " + b + "\n"
	}
	w1, w2 := newVerifWriter(), newVerifWriter()
	verifContext("C17.long")
	err1 := Output(w1, strings.NewReader(doc))
	err2 := wasm.Output(w2, strings.NewReader(doc))
	verifAssert((err1 == nil) == (err2 == nil), "C17.acc.long/text")
	if err1 == nil && err2 == nil {
		verifAssert(w1.out == w2.out, "C17.out.long/text")
	}
	verifReach("C17.long.end")
}

func init() {
	verifRegister("VerifC17Units", VerifC17Units)
}

// VerifC17Units: byte level with the REAL parser in both variants (job flag realparse): documents of two root blocks
// whose indented rows use their own notation -- i resp. j blanks (1..4) or a tab per level, the second block one or
// two levels deep, roots as list rows or # headings -- so that what the parser learns in the first block (unit,
// indentation character) meets a second block that may or may not agree with it: same accept/reject decision, same text.
func VerifC17Units() {
	ind := func(tag string) string {
		if verifFlag(tag + "tab") {
			return "\t"
		}
		return strings.Repeat(" ", int(verifChoose(tag, 1, 4)))
	}
	a, b := ind("i"), ind("j")
	var rows []string
	if verifFlag("sharp") {
		rows = []string{"# a", "- b", a + "- c", "# d", "- e", b + "- f"}
	} else {
		rows = []string{"- a", a + "- b", "- d", b + "- e"}
		if verifFlag("deep") {
			rows = append(rows, b+b+"- f")
		}
	}
	w1, w2 := newVerifWriter(), newVerifWriter()
	verifContext("C17.units")
	err1 := Output(w1, &verifReader{lines: rows})
	err2 := wasm.Output(w2, &verifReader{lines: append([]string{}, rows...)})
	verifAssert((err1 == nil) == (err2 == nil), "C17.acc.units/text")
	if err1 == nil && err2 == nil {
		verifAssert(w1.out == w2.out, "C17.out.units/text")
	}
	verifReach("C17.units.end")
}

func init() {
	verifRegister("VerifC17Lines", VerifC17Lines)
}

// VerifC17Lines: line ends in the tinywasm variant, with its REAL line splitting (job flags realscan, realparse): a
// forest of n rows (every well-formed depth sequence, concrete names) is written canonically (LF after every row) for
// the default build and with a solver-chosen terminator per row (LF or CRLF), with or without the terminator of the
// last row and optionally an empty LF / CRLF line appended, for the tinywasm build: text, JSON and dry-run output
// are byte-identical and both calls succeed.
func VerifC17Lines() {
	n := verifN()
	var rows []string
	prev := uint(0)
	for i := 0; i < n; i++ {
		var d uint
		if i > 0 {
			d = verifChoose("depth", 0, prev+1)
		}
		prev = d
		rows = append(rows, strings.Repeat("  ", int(d))+"- n"+string(rune('0'+i)))
	}
	docA, docB := "", ""
	for i, r := range rows {
		docA += r + "\n"
		docB += r
		if i == len(rows)-1 && verifFlag("nofinal") {
			continue
		}
		if verifFlag("crlf") {
			docB += "\r\n"
		} else {
			docB += "\n"
		}
	}
	switch verifChoose("tail", 0, 2) {
	case 1:
		docB += "\n"
	case 2:
		docB += "\r\n"
	}
	verifObserve("docB", docB)
	verifContext("C17.lines")
	for k := 0; k < 3; k++ {
		cls := []string{"/text", "/json", "/dryrun"}[k]
		w1, w2 := newVerifWriter(), newVerifWriter()
		var e1, e2 error
		switch k {
		case 0:
			e1 = Output(w1, strings.NewReader(docA))
			e2 = wasm.Output(w2, strings.NewReader(docB))
		case 1:
			e1 = Output(w1, strings.NewReader(docA), WithEncodeJSON())
			e2 = wasm.Output(w2, strings.NewReader(docB), wasm.WithEncodeJSON())
		case 2:
			color.Output = w1
			e1 = Output(w1, strings.NewReader(docA), WithDryRun())
			e2 = wasm.Output(w2, strings.NewReader(docB), wasm.WithDryRun())
		}
		verifAssert(e1 == nil && e2 == nil, "C17.lines.nil"+cls)
		verifAssert(w1.out == w2.out, "C17.lines.same"+cls)
	}
	verifReach("C17.lines.end")
}
