//go:build verif

package gtree

import (
	"runtime"
	"sync"
)

// Native-only amplification used to CONFIRM counterexamples of VerifC13Conc (a wrong result under concurrent use needs
// an interleaving the real scheduler does not produce on request; a data race needs both calls in one process built
// with -race): eight workers run every operation kind on their own inputs, again and again, yielding inside every
// Write; every result must equal what the same call gives alone. Never run unless the engine reported a counterexample.

func init() {
	verifRegister("VerifC13Stress", VerifC13Stress)
}

func VerifC13Stress() {
	verifContext("C13.conc")
	const workers, kinds = 8, 8
	names := []string{"a", "b", "c", "d", "e", "f", "g", "h"}
	alone := map[string]string{}
	for _, w := range names {
		for k := uint(0); k < kinds; k++ {
			alone[w+string(rune('0'+k))] = c13cOp(k, w, "x")
		}
	}
	verifWriteHook = runtime.Gosched
	defer func() { verifWriteHook = nil }()
	ok := true
	var mu sync.Mutex
	for _, procs := range []int{1, 4} {
		old := runtime.GOMAXPROCS(procs)
		for round := 0; round < 40; round++ {
			var wg sync.WaitGroup
			for i := 0; i < workers; i++ {
				wg.Add(1)
				go func(i int) {
					defer wg.Done()
					for k := uint(0); k < kinds; k++ {
						kind := (k + uint(i) + uint(round)) % kinds
						if c13cOp(kind, names[i], "x") != alone[names[i]+string(rune('0'+kind))] {
							mu.Lock()
							ok = false
							mu.Unlock()
						}
					}
				}(i)
			}
			wg.Wait()
		}
		runtime.GOMAXPROCS(old)
	}
	verifAssert(ok, "C13.conc.same")
	verifAssert(verifQuiesce() == 0, "C13.conc.noleak")
}
