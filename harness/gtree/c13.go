//go:build verif

package gtree

import (
	"context"
	"iter"
)

func init() {
	verifRegister("VerifC13", VerifC13)
}

// Option slices as a caller may well hold them: one backing array, c13Common a prefix of c13JSON with spare capacity.
// What a library call does with the slice it is handed must not leak into the other one.
var c13Common, c13JSON []Option

type c13Tree struct {
	root  *mNode
	nodes []*mNode
	// the iterator of the tree, made when the tree was made: a range over it walks the tree as it is THEN (every Add
	// of the history comes after its creation, and it is ranged more than once)
	seq iter.Seq2[*WalkerNode, error]
}

// c13Op runs one From-Root operation on the tree and returns its observable result as a string.
func c13Op(kind uint, t *c13Tree) (string, error) {
	switch kind {
	case 0: // text
		w := newVerifWriter()
		err := OutputFromRoot(w, t.root.real)
		return w.out, err
	case 1: // walk rows
		rows := ""
		err := WalkFromRoot(t.root.real, func(wn *WalkerNode) error {
			rows += wn.Row() + "\n"
			return nil
		}, c13Common...)
		return rows, err
	case 2: // iterator walk: rows and paths
		rows := ""
		var err error
		if t.seq == nil {
			t.seq = WalkIterFromRoot(t.root.real)
		}
		for wn, e := range t.seq {
			if e != nil {
				err = e
				break
			}
			rows += wn.Row() + "\n"
		}
		return rows, err
	case 4: // dry-run report of the tree
		w := newVerifWriter()
		err := OutputFromRoot(w, t.root.real, WithDryRun())
		return w.out, err
	case 5: // dry run together with an encode option (the dry run is what is printed)
		w := newVerifWriter()
		err := OutputFromRoot(w, t.root.real, WithDryRun(), WithEncodeJSON())
		return w.out, err
	case 6: // JSON record through the massive pipeline (the caller's tree is handed to its stages)
		w := newVerifWriter()
		err := OutputFromRoot(w, t.root.real, WithMassive(context.Background()), WithEncodeJSON())
		return w.out, err
	}
	// JSON record
	w := newVerifWriter()
	err := OutputFromRoot(w, t.root.real, c13JSON...)
	return w.out, err
}

// c13Fresh: a tree with the same shape and names as the model, built just now and never used
func c13Fresh(m *mNode) *c13Tree {
	var cp func(m *mNode, parent *mNode) *mNode
	cp = func(m *mNode, parent *mNode) *mNode {
		n := &mNode{name: m.name, parent: parent}
		if parent == nil {
			n.real = NewRoot(m.name)
		} else {
			n.real = parent.real.Add(m.name)
		}
		for _, c := range m.children {
			n.children = append(n.children, cp(c, n))
		}
		return n
	}
	r := cp(m, nil)
	return &c13Tree{root: r, nodes: []*mNode{r}}
}

// c13SameAsFresh: the operation on the tree with its history gives what it gives on a fresh copy of the tree
func c13SameAsFresh(kind uint, t *c13Tree, out string, err error) bool {
	fo, fe := c13Op(kind, c13Fresh(t.root))
	return fo == out && (fe == nil) == (err == nil)
}

func c13Want(kind uint, t *c13Tree, out string) bool {
	if kind == 4 || kind == 5 {
		return true // the content of the dry-run report is C09's; here only: a function of the tree (C13.fresh)
	}
	if kind == 3 || kind == 6 {
		return encMatches(encJSON, out, []*rec{recOfM(t.root)})
	}
	return out == mRender(t.root, dLD, dLI, dMD, dMI)
}

// VerifC13: histories of n steps over up to two live trees. Steps: Add on a solver-chosen node of a
// solver-chosen tree, creation of the second tree, an unrelated From-Markdown call, an unrelated option-less
// VerifyFromRoot of a throw-away tree, or a From-Root operation
// (text, walk, iterator walk, JSON) on a chosen tree. After every operation the result equals the reference
// rendering of that tree's current model (a function of shape and names only) and repeating the operation
// repeats the result.
// c13Name: a single path element, or (verifN() >= 10) the empty string or a name that is no path element:
// NewRoot("") / Add("x/y") are legal calls, and text, walk and JSON do not validate names.
func c13Name() string {
	if (verifN()/10)%10 >= 1 {
		switch verifChoose("nameKind", 0, 2) {
		case 1:
			return ""
		case 2:
			return "x/y"
		}
	}
	return verifName("name")
}

func VerifC13() {
	n := verifN() % 10
	c13Common = make([]Option, 0, 4)
	c13JSON = append(c13Common, WithEncodeJSON())
	t0 := &c13Tree{}
	t0.root = &mNode{name: c13Name()}
	t0.root.real = NewRoot(t0.root.name)
	t0.seq = WalkIterFromRoot(t0.root.real)
	t0.nodes = []*mNode{t0.root}
	trees := []*c13Tree{t0}
	hist := ""
	ops := 0
	// one kind of operation per history (verifN() >= 100: the dry-run kinds, a job of their own)
	kind := verifChoose("op", 0, 3)
	if verifN() >= 200 {
		kind = 6 // the massive JSON route, a job of its own
	} else if verifN() >= 100 {
		kind = verifChoose("op", 4, 5)
	}
	for i := 0; i < n; i++ {
		// (the refusing-writer step only in histories of up to four steps: five steps with seven kinds do not fit the budget)
		maxStep := uint(6)
		if n >= 5 {
			maxStep = 5
		}
		step := verifChoose("step", 0, maxStep)
		switch step {
		case 0: // Add
			t := trees[verifChoose("tree", 0, uint(len(trees)-1))]
			p := t.nodes[verifChoose("parent", 0, uint(len(t.nodes)-1))]
			if c, created := mAdd(p, c13Name(), "C13.add"); created {
				t.nodes = append(t.nodes, c)
			}
			hist += "A"
		case 1: // operation
			t := trees[verifChoose("tree", 0, uint(len(trees)-1))]
			verifContext("C13.op")
			out, err := c13Op(kind, t)
			verifAssert(err == nil || kind == 4 || kind == 5, "C13.nil")
			if kind != 3 && kind != 6 {
				verifObserve("out", out)
			}
			verifAssert(c13Want(kind, t, out), "C13.fn")
			verifAssert(c13SameAsFresh(kind, t, out, err), "C13.fresh")
			out2, err2 := c13Op(kind, t)
			verifAssert((err2 == nil) == (err == nil) && out2 == out, "C13.idem")
			ops++
			hist += "O"
		case 2: // second tree
			if len(trees) == 2 {
				verifAssume(false)
			}
			t1 := &c13Tree{}
			t1.root = &mNode{name: c13Name()}
			t1.root.real = NewRoot(t1.root.name)
			t1.seq = WalkIterFromRoot(t1.root.real)
			t1.nodes = []*mNode{t1.root}
			trees = append(trees, t1)
			hist += "N"
		case 3: // unrelated From-Markdown call in between
			w := newVerifWriter()
			a, b := verifName("name"), verifName("name")
			err := OutputFromMarkdown(w, &verifReader{lines: []string{verifRow("", 0, 0, a), verifRow("", 0, 1, b)}})
			verifAssert(err == nil && w.out == a+"\n"+dLD+" "+b+"\n", "C13.md")
			hist += "M"
		case 6: // an unrelated From-Markdown text output whose writer refuses a write: it fails, and leaves nothing behind
			w := newVerifWriter()
			w.failAt = int(verifChoose("failAt", 0, 1))
			a, b := verifName("name"), verifName("name")
			err := OutputFromMarkdown(w, &verifReader{lines: []string{verifRow("", 0, 0, a), verifRow("", 0, 1, b)}})
			verifAssert(err != nil, "C13.md.fails")
			hist += "F"
		case 5: // an operation of ANOTHER kind on one of the trees (plain text output): what it leaves in the nodes is not input
			t := trees[verifChoose("tree", 0, uint(len(trees)-1))]
			_, _ = c13Op(0, t)
			hist += "T"
		case 4: // unrelated option-less verify of a throw-away tree (read-only; switches name validation on for itself)
			_ = VerifyFromRoot(NewRoot(verifName("name")), c13Common...)
			hist += "V"
		}
	}
	verifNote("history=" + hist)
	// final operation on every tree: the history must not have left anything behind
	for _, t := range trees {
		verifContext("C13.final")
		out, err := c13Op(kind, t)
		verifAssert(err == nil || kind == 4 || kind == 5, "C13.nil")
		if kind != 3 && kind != 6 {
			verifObserve("final", out)
		}
		verifAssert(c13Want(kind, t, out), "C13.fn")
		verifAssert(c13SameAsFresh(kind, t, out, err), "C13.fresh")
	}
	verifReach("C13.end")
}
