//go:build verif

package gtree

func init() {
	verifRegister("VerifC02", VerifC02)
}

// VerifC02: documents of n rows with unconstrained depths (level jumps, indented first row) and at most one
// row of a malformation class at an arbitrary position. Rendering (both simple output routes) and the
// generate() route used by walk/mkdir/verify return non-nil iff some row offends; a format error names the
// first offending row; when nil is returned the output is the reference rendering of *all* item rows.
func VerifC02() {
	n := verifN()
	badAt := int(verifChoose("badAt", 0, uint(n))) // == n: no malformed row
	var lines []vLine
	var rows []string
	prev := -1        // depth of the previous item row, -1 before the first
	unitKnown := false // the first indented row of a document defines the unit: its depth is 1 by definition
	offender := -1
	offClass := ""
	haveRoot := false
	for i := 0; i < n; i++ {
		if offender >= 0 && i > offender+1 {
			break // rows after the first offending one cannot matter; one trailing row is kept to see that the error survives it
		}
		if i == badAt {
			kind := int(verifChoose("badKind", 2, 3))
			d := uint(0)
			if unitKnown {
				d = verifChoose("badDepth", 0, 2)
			}
			rows = append(rows, verifRow("", kind, d, verifText("name")))
			if offender < 0 {
				offender = i
				if kind == 2 {
					offClass = "nobullet"
				} else {
					offClass = "emptytext"
				}
			}
			continue
		}
		var d uint
		if unitKnown {
			d = verifChoose("depth", 0, uint(prev+2))
		} else {
			d = verifChoose("depth", 0, 1)
		}
		if d > 0 {
			unitKnown = true
		}
		nm := verifText("name")
		rows = append(rows, verifRow("", 0, d, nm))
		if offender < 0 {
			switch {
			case d > 0 && !haveRoot:
				offender, offClass = i, "noroot"
			case int(d) > prev+1:
				offender, offClass = i, "jump"
			}
		}
		if d == 0 {
			haveRoot = true
		}
		if offender < 0 {
			lines = append(lines, vLine{d, nm})
		}
		prev = int(d)
	}
	verifNote("offender=" + offClass)
	route := verifChoose("route", 0, 2)
	w := newVerifWriter()
	var err error
	var walked string
	verifContext("C02.run")
	switch route {
	case 0:
		err = OutputFromMarkdown(w, &verifReader{lines: rows})
	case 1:
		err = OutputFromMarkdown(w, &verifReader{lines: rows}, WithNoUseIterOfSimpleOutput())
	case 2:
		err = WalkFromMarkdown(&verifReader{lines: rows}, func(wn *WalkerNode) error {
			walked += wn.Row() + "\n"
			return nil
		})
	}
	class := "/ok"
	if offender >= 0 {
		class = "/" + offClass
	}
	verifAssert((err != nil) == (offender >= 0), "C02.iff"+class)
	if err != nil && offender >= 0 {
		switch offClass {
		case "nobullet", "jump":
			verifAssert(err.Error() == "incorrect input format: "+rows[offender], "C02.row/"+offClass)
		}
	}
	if err == nil && offender < 0 {
		nodes, roots := specForest(lines)
		want := specRenderForest(nodes, roots, dLD, dLI, dMD, dMI)
		if route == 2 {
			verifObserve("walked", walked)
			verifAssert(walked == want, "C02.complete/walk")
		} else {
			verifObserve("out", w.out)
			verifAssert(w.out == want, "C02.complete/output")
		}
	}
	verifReach("C02.end")
}
