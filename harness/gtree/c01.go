//go:build verif

package gtree

func init() {
	verifRegister("VerifC01", VerifC01)
	verifRegister("VerifC01Blank", VerifC01Blank)
}

func c01Options(ld, li, md, mi string, noIter bool) []Option {
	opts := []Option{WithBranchFormatLastNode(ld, li), WithBranchFormatIntermedialNode(md, mi)}
	if noIter {
		opts = append(opts, WithNoUseIterOfSimpleOutput())
	}
	return opts
}

// VerifC01: for every well-formed forest of n item rows (every shape, every pattern of equal sibling names),
// all names and all four branch strings (opaque, any length/content), both simple output routes:
// OutputFromMarkdown returns nil and writes exactly the rendering defined by the statement.
func VerifC01() {
	n := verifN()
	lines, rows := wellFormedLines(n, verifText)
	verifNote(shapeNote(lines))
	ld, li, md, mi := verifStr("ld"), verifStr("li"), verifStr("md"), verifStr("mi")
	noIter := verifFlag("noIter")
	w := newVerifWriter()
	verifContext("C01.output")
	err := OutputFromMarkdown(w, &verifReader{lines: rows}, c01Options(ld, li, md, mi, noIter)...)
	verifAssert(err == nil, "C01.nil")
	nodes, roots := specForest(lines)
	want := specRenderForest(nodes, roots, ld, li, md, mi)
	verifObserve("out", w.out)
	verifAssert(w.out == want, "C01.out")
	verifReach("C01.end")
}

// VerifC01Blank: same with up to two blank / whitespace-only rows at arbitrary positions (also before the
// first root and after the last row): they never change the result.
func VerifC01Blank() {
	n := verifN()
	lines, rows := wellFormedLines(n, verifText)
	k := int(verifChoose("blanks", 1, 2))
	for i := 0; i < k; i++ {
		pos := int(verifChoose("bpos", 0, uint(len(rows))))
		ws := ""
		switch verifChoose("ws", 0, 2) {
		case 1:
			ws = "  "
		case 2:
			ws = "\t"
		}
		blank := verifRow(ws, 1, 0, "")
		rows = append(rows[:pos], append([]string{blank}, rows[pos:]...)...)
	}
	ld, li, md, mi := verifStr("ld"), verifStr("li"), verifStr("md"), verifStr("mi")
	noIter := verifFlag("noIter")
	w := newVerifWriter()
	verifContext("C01.output")
	err := OutputFromMarkdown(w, &verifReader{lines: rows}, c01Options(ld, li, md, mi, noIter)...)
	verifAssert(err == nil, "C01.blank.nil")
	nodes, roots := specForest(lines)
	want := specRenderForest(nodes, roots, ld, li, md, mi)
	verifObserve("out", w.out)
	verifAssert(w.out == want, "C01.blank.out")
	verifReach("C01.blank.end")
}

func init() {
	verifRegister("VerifC01Bytes", VerifC01Bytes)
}

// VerifC01Bytes: the rendering rule with the four branch strings as 0..2 arbitrary ASCII bytes each (so that code
// which measures, slices or searches the branch strings runs on symbolic bytes and on strings of different
// lengths), concrete distinct names, every forest shape of n rows, both simple routes.
func VerifC01Bytes() {
	n := verifN()
	k := 0
	lines, rows := wellFormedLines(n, func(string) string { k++; return "n" + string(rune('0'+k)) })
	bs := func(label string) string {
		l := int(verifChoose("len_"+label, 0, 2))
		s := verifBytes(label, l)
		for j := 0; j < len(s); j++ {
			verifAssume(s[j] != '\n' && s[j] < 0x80)
		}
		return s
	}
	ld, li, md, mi := bs("ld"), bs("li"), bs("md"), bs("mi")
	noIter := verifFlag("noIter")
	w := newVerifWriter()
	verifContext("C01.bytes")
	err := OutputFromMarkdown(w, &verifReader{lines: rows}, c01Options(ld, li, md, mi, noIter)...)
	verifAssert(err == nil, "C01.bytes.nil")
	nodes, roots := specForest(lines)
	verifObserve("out", w.out)
	verifAssert(w.out == specRenderForest(nodes, roots, ld, li, md, mi), "C01.bytes.out")
	verifReach("C01.bytes.end")
}
