//go:build verif

package gtree

import "strings"

func init() {
	verifRegister("VerifC06Bytes", VerifC06Bytes)
}

// VerifC06Bytes: the file-versus-directory rule at byte level. Root "r" with one child whose name is L arbitrary
// ASCII bytes (a single valid path element), optionally with a grandchild; one configured extension of E arbitrary
// ASCII bytes; From-Markdown or From-Root. The child is created as a regular file (os.Create on exactly its path)
// iff it is childless and its name ends with the extension (the harness decides that with strings.HasSuffix on the
// same bytes); otherwise its path is made with os.MkdirAll. verifN() = 10*E + L.
func VerifC06Bytes() {
	l := verifN() % 10
	e := verifN() / 10
	name := verifBytes("name", l)
	for j := 0; j < len(name); j++ {
		verifAssume(name[j] != '\n' && name[j] < 0x80 && name[j] != 0 && name[j] != '/')
	}
	verifAssume(name != "." && name != ".." && name[len(name)-1] != '\r')
	ext := verifBytes("ext", e)
	for j := 0; j < len(ext); j++ {
		verifAssume(ext[j] != '\n' && ext[j] < 0x80 && ext[j] != 0 && ext[j] != '/')
	}
	hasGrandchild := verifFlag("grandchild")
	target := c07Target()
	c07Seal()
	var err error
	verifContext("C06.bytes")
	if verifFlag("fromRoot") {
		root := NewRoot("r")
		c := root.Add(name)
		if hasGrandchild {
			c.Add("g")
		}
		err = MkdirFromRoot(root, WithTargetDir(target), WithFileExtensions([]string{ext}))
	} else {
		rows := []string{verifRow("", 0, 0, "r"), verifRow("", 0, 1, name)}
		if hasGrandchild {
			rows = append(rows, verifRow("", 0, 2, "g"))
		}
		err = MkdirFromMarkdown(&verifReader{lines: rows}, WithTargetDir(target), WithFileExtensions([]string{ext}))
	}
	verifAssert(err == nil, "C06.bytes.nil")
	wantFile := !hasGrandchild && strings.HasSuffix(name, ext)
	childPath := target + "/r/" + name
	paths, kinds := verifFSCalls(), verifFSKinds()
	created, made := false, false
	for i, p := range paths {
		if p == childPath {
			if kinds[i] == "create" {
				created = true
			} else {
				made = true
			}
		}
	}
	if wantFile {
		verifAssert(created && !made, "C06.bytes.file")
	} else {
		verifAssert(!created, "C06.bytes.dir")
		verifAssert(made || hasGrandchild, "C06.bytes.dir.made")
	}
	verifReach("C06.bytes.end")
}
