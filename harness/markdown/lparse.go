//go:build verif

package markdown

func init() {
	verifRegister("VerifLParse", VerifLParse)
	verifRegister("VerifLHeading", VerifLHeading)
	verifRegister("VerifLMalformed", VerifLMalformed)
	verifRegister("VerifLAny", VerifLAny)
}

func rep(c string, n int) string {
	s := ""
	for i := 0; i < n; i++ {
		s += c
	}
	return s
}

type notation struct {
	c     string // indent character
	u     int    // indent unit
	sharp bool   // roots written as # headings (list rows shift one level down)
}

// lpState brings a fresh parser, through the public API only, into one of the states an accepted document
// prefix can leave behind under notation N:
//   0 fresh                      1 after a root row                2 after root + child (unit learnt)
//   3 after root + child + root  (unit learnt, indent char forgotten)
// under sharp notation the prefix starts with a heading. unitKnown tells whether the unit has been learnt.
func lpState(nt notation) (p *Parser, unitKnown bool) {
	p = NewParser()
	st := verifChoose("state", 0, 3)
	bullets := []string{"-", "*", "+"}
	b := "-"
	if lpFull() {
		b = bullets[verifChoose("preBullet", 0, 2)]
	}
	ok := func(row string) {
		_, err := p.Parse(row)
		verifAssume(err == nil)
	}
	if nt.sharp {
		ok("# h")
		if st >= 1 {
			ok(b + " r")
		}
	} else if st >= 1 {
		ok(b + " r")
	}
	if st >= 2 {
		ok(rep(nt.c, nt.u) + b + " c")
		unitKnown = true
	}
	if st >= 3 {
		if nt.sharp {
			ok("# h2")
		} else {
			ok(b + " r2")
		}
	}
	return
}

func lpNotation() notation {
	nt := notation{c: " "}
	if verifFlag("tab") {
		nt.c = "\t"
	}
	nt.u = int(verifChoose("unit", 1, 4))
	nt.sharp = verifFlag("sharp")
	return nt
}

// lpName: k arbitrary bytes (no newline; the scanner never delivers one). ascii restricts to < 0x80.
func lpName(k int) string {
	name := verifBytes("name", k)
	for i := 0; i < len(name); i++ {
		verifAssume(name[i] != '\n')
		if !lpAllBytes() {
			verifAssume(name[i] < 0x80)
		}
	}
	// a name does not end in \r: a trailing \r belongs to the line terminator (scanner contract)
	verifAssume(name[len(name)-1] != '\r')
	return name
}

// size parameter: n%10 = name length, (n/10)%10 != 0 = all 256 byte values, n/100 != 0 = full configuration
// (bullet of the prefix rows and of the follow-up row symbolic as well)
func lpLen() int       { return verifN() % 10 }
func lpAllBytes() bool { return (verifN()/10)%10 != 0 }
func lpFull() bool     { return verifN() >= 100 }

// VerifLParse: one step of the Parse contract for list rows. For every notation N (space/tab, unit 1..4,
// bullet per row, # roots or not), every state left by an accepted prefix, every depth k <= 3 and every name:
// the row  c^(u*k) bullet ' ' name  parses to (k+1 (+1 under # roots), name).
func VerifLParse() {
	nt := lpNotation()
	p, unitKnown := lpState(nt)
	k := int(verifChoose("depth", 0, 3))
	if !unitKnown {
		// the first indented row of a document defines the unit: its depth is 1 by definition
		verifAssume(k <= 1)
	}
	bullets := []string{"-", "*", "+"}
	bullet := bullets[verifChoose("bullet", 0, 2)]
	name := lpName(lpLen())
	row := rep(nt.c, nt.u*k) + bullet + " " + name
	m, err := p.Parse(row)
	verifAssert(err == nil, "LP.accept")
	if err == nil {
		want := uint(k) + 1
		if nt.sharp {
			want++
		}
		verifAssert(m.Hierarchy() == want, "LP.hierarchy")
		verifAssert(m.Text() == name, "LP.text")
		// the post-state is again a state of the family: the next row of the same notation parses correctly
		k2 := int(verifChoose("depth2", 0, 1))
		b2 := "-"
		if lpFull() {
			k2 = int(verifChoose("depth2b", 0, 1)) + k2 // 0..2
			b2 = bullets[verifChoose("bullet2", 0, 2)]
		}
		if !unitKnown && k == 0 {
			verifAssume(k2 <= 1)
		}
		m2, err2 := p.Parse(rep(nt.c, nt.u*k2) + b2 + " z")
		want2 := uint(k2) + 1
		if nt.sharp {
			want2++
		}
		verifAssert(err2 == nil && m2.Hierarchy() == want2 && m2.Text() == "z", "LP.next")
	}
	verifReach("LP.end")
}

// VerifLHeading: heading rows  #..# [space] name  are roots with the trimmed name, from every state.
func VerifLHeading() {
	nt := lpNotation()
	p, _ := lpState(nt)
	h := int(verifChoose("hashes", 1, 3))
	name := lpName(lpLen())
	verifAssume(name[0] != ' ' && name[len(name)-1] != ' ' && name[0] != '#')
	// a heading that consists of blanks only after trimming is a different class (empty text)
	sp := ""
	if verifFlag("space") {
		sp = " "
	}
	m, err := p.Parse(rep("#", h) + sp + name)
	blank := true
	for i := 0; i < len(name); i++ {
		if name[i] != ' ' {
			blank = false
		}
	}
	verifAssume(!blank)
	verifAssert(err == nil, "LH.accept")
	if err == nil {
		verifAssert(m.Hierarchy() == 1, "LH.root")
		verifAssert(m.Text() == name, "LH.text")
		// list rows after a heading are one level down
		m2, err2 := p.Parse("- z")
		verifAssert(err2 == nil && m2.Hierarchy() == 2 && m2.Text() == "z", "LH.next")
	}
	verifReach("LH.end")
}

func lpIsWS(c byte) bool {
	return c == ' ' || c == '\t' || c == '\r' || c == '\v' || c == '\f' || c == 0x85 || c == 0xA0
}

// VerifLMalformed: the malformation classes of the property statement are rejected with the right error class.
func VerifLMalformed() {
	nt := lpNotation()
	p, unitKnown := lpState(nt)
	k := int(verifChoose("depth", 0, 2))
	if !unitKnown {
		verifAssume(k <= 1)
	}
	bullets := []string{"-", "*", "+"}
	bullet := bullets[verifChoose("bullet", 0, 2)]
	switch verifChoose("class", 0, 5) {
	case 0: // no bullet after the indentation: the first byte after it is neither a bullet nor blank (nor '#' at column 0)
		rest := lpName(lpLen())
		verifAssume(rest[0] != '-' && rest[0] != '*' && rest[0] != '+' && !lpIsWS(rest[0]))
		if k == 0 {
			verifAssume(rest[0] != '#')
		}
		_, err := p.Parse(rep(nt.c, nt.u*k) + rest)
		verifAssert(err == ErrIncorrectFormat, "LM.nobullet")
	case 1: // empty item text
		tail := ""
		if verifFlag("oneSpace") {
			tail = " "
		}
		_, err := p.Parse(rep(nt.c, nt.u*k) + bullet + tail)
		verifAssert(err == ErrEmptyText, "LM.emptytext")
	case 2: // indentation that is not a whole multiple of the learnt unit
		verifAssume(nt.u >= 2 && unitKnown)
		extra := int(verifChoose("extra", 1, uint(nt.u-1)))
		_, err := p.Parse(rep(nt.c, nt.u*k+extra) + bullet + " " + lpName(lpLen()))
		verifAssert(err == ErrIncorrectFormat, "LM.badindent")
	case 3: // tabs and spaces mixed in the indentation
		other := "\t"
		if nt.c == "\t" {
			other = " "
		}
		ind := nt.c + other
		if verifFlag("otherFirst") {
			ind = other + nt.c
		}
		_, err := p.Parse(ind + bullet + " " + lpName(lpLen()))
		verifAssert(err == ErrIncorrectFormat, "LM.mixed")
	case 5: // the other indentation character in a later row, once the document's character is known (any root block)
		verifAssume(unitKnown)
		other := "\t"
		if nt.c == "\t" {
			other = " "
		}
		w := int(verifChoose("otherWidth", 1, 4))
		_, err := p.Parse(rep(other, w) + bullet + " " + lpName(lpLen()))
		verifAssert(err == ErrIncorrectFormat, "LM.otherchar")
	case 4: // blank and whitespace-only rows
		_, err := p.Parse(rep(nt.c, int(verifChoose("wsLen", 0, 3))))
		verifAssert(err == ErrBlankLine, "LM.blank")
	}
	verifReach("LM.end")
}

// VerifLAny: any row of n arbitrary bytes from any state: Parse returns normally with exactly one of
// (markdown, nil) / (nil, error), a positive hierarchy and a non-empty text (the other half of the contract
// the tree level relies on).
func VerifLAny() {
	nt := lpNotation()
	p, _ := lpState(nt)
	k := lpLen()
	row := verifBytes("row", k)
	for i := 0; i < len(row); i++ {
		verifAssume(row[i] != '\n')
		if !lpAllBytes() {
			verifAssume(row[i] < 0x80)
		}
	}
	m, err := p.Parse(row)
	verifAssert((m == nil) != (err == nil), "LA.oneof")
	if err == nil && m != nil {
		verifAssert(m.Hierarchy() >= 1, "LA.hierarchy")
		verifAssert(len(m.Text()) > 0, "LA.text")
	} else {
		verifAssert(err == ErrBlankLine || err == ErrEmptyText || err == ErrIncorrectFormat, "LA.errclass")
	}
	verifReach("LA.end")
}
