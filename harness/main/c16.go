//go:build verif

package main

import (
	"errors"

	"github.com/urfave/cli/v2"
)

// engine-provided (see engine/cli.go)
func verifCalls() string            // the library calls recorded so far: op(w=..,r=..,massive=..,encode=..,dryrun=..,strict=..,ctx=..,ext=[..],target=..)
func verifStdFiles()                // installs named host files as os.Stdin/Stdout/Stderr and color.Output
func verifExitCode(f func()) int    // runs f; the status given to os.Exit, or -1 if f returned

func init() {
	verifRegister("VerifC16Output", VerifC16Output)
	verifRegister("VerifC16Mkdir", VerifC16Mkdir)
	verifRegister("VerifC16Verify", VerifC16Verify)
	verifRegister("VerifC16Main", VerifC16Main)
}

func c16Bool(b bool) string {
	if b {
		return "true"
	}
	return "false"
}

func c16Exts(e []string) string {
	s := ""
	for i, x := range e {
		if i > 0 {
			s += ","
		}
		s += x
	}
	return s
}

// c16Code: nil -> 0; an ExitCoder -> its code; any other error -> -1 (main turns that into status 1)
func c16Code(err error) int {
	if err == nil {
		return 0
	}
	var ec cli.ExitCoder
	if errors.As(err, &ec) {
		return ec.ExitCode()
	}
	return -1
}

// VerifC16Output: actionOutput with every flag combination (symbolic --format string, --massive,
// --massive-timeout, --file, --watch off), library and os.Open results symbolic.
func VerifC16Output() {
	verifStdFiles()
	c := &cli.Context{}
	format := c.String("format")
	massive := c.Bool("massive")
	timeout := c.Duration("massive-timeout")
	file := c.Path("file")
	verifAssume(!c.Bool("watch")) // --watch never returns (ticker loop); outside the claim
	verifContext("C16.output")
	err := actionOutput(c)
	calls := verifCalls()
	validFormat := format == "" || format == "json" || format == "yaml" || format == "toml"
	stdin := file == "" || file == "-"
	if !validFormat {
		verifAssert(calls == "", "C16.wire.output.badformat.nocall")
		verifAssert(c16Code(err) > 0, "C16.code.output.badformat")
		verifReach("C16.output.end")
		return
	}
	enc := "0"
	switch format {
	case "json":
		enc = "1"
	case "yaml":
		enc = "2"
	case "toml":
		enc = "3"
	}
	ctx := "nil"
	isMassive := massive || timeout > 0
	if timeout > 0 {
		ctx = "timeout"
	} else if massive {
		ctx = "background"
	}
	rd := "file"
	if stdin {
		rd = "stdin"
	}
	want := "output(w=stdout,r=" + rd + ",massive=" + c16Bool(isMassive) + ",encode=" + enc + ",dryrun=false,strict=false,ctx=" + ctx + ",ext=[],target=.)\n"
	if calls == "" {
		// only an open failure may prevent the library call
		verifAssert(!stdin, "C16.wire.output.called")
		verifAssert(c16Code(err) > 0, "C16.code.output.open")
	} else {
		verifAssert(calls == want, "C16.wire.output")
		// the action's status is the library's verdict
		verifAssert((err == nil) || c16Code(err) > 0, "C16.code.output.exitcoder")
	}
	// the front end itself touches the file system only through the library
	verifAssert(len(verifFSCalls()) == 0, "C16.wire.output.nofs")
	verifReach("C16.output.end")
}

// VerifC16Mkdir: actionMkdir: --dry-run is routed to OutputFromMarkdown+WithDryRun on color.Output, otherwise
// MkdirFromMarkdown; extensions, target dir and massive are passed through.
func VerifC16Mkdir() {
	verifStdFiles()
	c := &cli.Context{}
	file := c.Path("file")
	target := c.String("target-dir")
	exts := c.StringSlice("extension")
	massive := c.Bool("massive")
	verifAssume(!massive) // the mkdir sub-command defines no --massive flag: the getter can only answer false
	dry := c.Bool("dry-run")
	verifContext("C16.mkdir")
	err := actionMkdir(c)
	calls := verifCalls()
	stdin := file == "" || file == "-"
	rd := "file"
	if stdin {
		rd = "stdin"
	}
	ctx := "nil"
	if massive {
		ctx = "background"
	}
	want := ""
	if dry {
		want = "output(w=color.Output,r=" + rd + ",massive=" + c16Bool(massive) + ",encode=0,dryrun=true,strict=false,ctx=" + ctx + ",ext=[" + c16Exts(exts) + "],target=" + target + ")\n"
	} else {
		want = "mkdir(w=-,r=" + rd + ",massive=" + c16Bool(massive) + ",encode=0,dryrun=false,strict=false,ctx=" + ctx + ",ext=[" + c16Exts(exts) + "],target=" + target + ")\n"
	}
	if calls == "" {
		verifAssert(!stdin, "C16.wire.mkdir.called")
		verifAssert(c16Code(err) > 0, "C16.code.mkdir.open")
	} else {
		verifAssert(calls == want, "C16.wire.mkdir")
		verifAssert((err == nil) || c16Code(err) > 0, "C16.code.mkdir.exitcoder")
	}
	// the front end itself touches the file system only through the library
	verifAssert(len(verifFSCalls()) == 0, "C16.wire.mkdir.nofs")
	verifReach("C16.mkdir.end")
}

// VerifC16Verify: actionVerify: target dir and --strict are passed through.
func VerifC16Verify() {
	verifStdFiles()
	c := &cli.Context{}
	file := c.Path("file")
	target := c.String("target-dir")
	strict := c.Bool("strict")
	verifContext("C16.verify")
	err := actionVerify(c)
	calls := verifCalls()
	stdin := file == "" || file == "-"
	rd := "file"
	if stdin {
		rd = "stdin"
	}
	want := "verify(w=-,r=" + rd + ",massive=false,encode=0,dryrun=false,strict=" + c16Bool(strict) + ",ctx=nil,ext=[],target=" + target + ")\n"
	if calls == "" {
		verifAssert(!stdin, "C16.wire.verify.called")
		verifAssert(c16Code(err) > 0, "C16.code.verify.open")
	} else {
		verifAssert(calls == want, "C16.wire.verify")
		verifAssert((err == nil) || c16Code(err) > 0, "C16.code.verify.exitcoder")
	}
	// the front end itself touches the file system only through the library
	verifAssert(len(verifFSCalls()) == 0, "C16.wire.verify.nofs")
	verifReach("C16.verify.end")
}

// c16LibVerdict: every library failure must surface as a non-zero ExitCoder, success as nil. The library stub fails
// iff its symbolic flag says so; the flag is read back through the primitive below.
func verifLibFailed() bool

func init() {
	verifRegister("VerifC16Code", VerifC16Code)
}

// VerifC16Code: for each action: the action returns nil iff the library call it made succeeded.
func VerifC16Code() {
	verifStdFiles()
	c := &cli.Context{}
	verifAssume(!c.Bool("watch"))
	var err error
	which := verifChoose("action", 0, 2)
	verifContext("C16.code")
	switch which {
	case 0:
		err = actionOutput(c)
	case 1:
		verifAssume(!c.Bool("massive")) // no such flag on mkdir
		err = actionMkdir(c)
	case 2:
		err = actionVerify(c)
	}
	if verifCalls() != "" {
		if verifLibFailed() {
			verifAssert(c16Code(err) > 0, "C16.code.libfail")
		} else {
			verifAssert(err == nil, "C16.code.success")
		}
	}
	verifReach("C16.code.end")
}

// VerifC16Main: main() with App.Run replaced by its contract: it returns nil, or an error that is not an
// ExitCoder (usage errors: unknown flag, stray argument rejected by the Before hook, flag validation), because
// ExitCoder errors are turned into os.Exit(code) inside Run by the library. main must then end in os.Exit(!= 0)
// exactly when Run failed.
func VerifC16Main() {
	verifStdFiles()
	verifContext("C16.main")
	code := verifExitCode(main)
	if verifRunFailed() {
		verifAssert(code > 0, "C16.main.usage")
	} else {
		verifAssert(code <= 0, "C16.main.success")
	}
	// the Before hook of every sub-command rejects stray arguments
	c := &cli.Context{}
	e := notExistArgs(c)
	verifAssert((e != nil) == (c.NArg() != 0), "C16.main.strayargs")
	verifReach("C16.main.end")
}

func verifRunFailed() bool

func verifStdoutFailed() bool
func verifStdout() string

func init() {
	verifRegister("VerifC16Template", VerifC16Template)
}

// VerifC16Template: the template action (both forms) prints through fmt to the standard output; every write is
// accepted or refused (solver's choice per write). A refused write is an I/O failure of the operation: the action
// returns an error (main turns that into a non-zero status and the message on stderr); when nothing is refused the
// action returns nil and the complete template has gone out, with its final newline.
func VerifC16Template() {
	verifStdFiles()
	c := &cli.Context{}
	desc := c.Bool("description")
	verifContext("C16.template")
	err := actionTemplate(c)
	if verifStdoutFailed() {
		verifAssert(err != nil, "C16.code.template.writefail")
	} else {
		verifAssert(err == nil, "C16.code.template.ok")
		want := string(directory) + "\n"
		if desc {
			want = string(description) + "\n"
		}
		verifAssert(verifStdout() == want, "C16.wire.template")
	}
	verifReach("C16.template.end")
}
