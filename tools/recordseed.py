#!/usr/bin/env python3
"""tools/recordseed.py <src-dir> <name> <property> <needs> <caught_by> <ran>
Copies a confirmed seeded change into /verif/seeded/<name>/ (patch.diff, demonstration, meta.json)."""
import json, os, shutil, sys, glob
src, name, prop, needs, caught, ran = sys.argv[1:7]
dst = os.path.join('/verif/seeded', name)
os.makedirs(dst, exist_ok=True)
shutil.copy(os.path.join(src, 'patch.diff'), os.path.join(dst, 'patch.diff'))
for f in glob.glob(os.path.join(src, '*_test.go')):
    # stored with a .txt suffix so that nothing under /verif is picked up as Go source by accident
    shutil.copy(f, os.path.join(dst, os.path.basename(f)))
if os.path.exists(os.path.join(src, 'notes.md')):
    shutil.copy(os.path.join(src, 'notes.md'), os.path.join(dst, 'notes.md'))
meta = {
    "property": prop,
    "breaks": open(os.path.join(src, 'notes.md')).read().split('\n')[0] if os.path.exists(os.path.join(src, 'notes.md')) else "",
    "needs_to_manifest": needs,
    "detected_by": caught,
    "what_was_run": ran,
    "origin": "independent sub-agent given only the property text and a scratch worktree; confirmed with tools/tryseed.sh (builds, pinned suite passes with the change, demonstration fails with it and passes without it)",
}
json.dump(meta, open(os.path.join(dst, 'meta.json'), 'w'), indent=1)
print("recorded", dst)
