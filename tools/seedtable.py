#!/usr/bin/env python3
"""Regenerates the table of seeded changes in DESIGN.md from seeded/*/meta.json."""
import json, glob, os, re
rows = ["| seed | property | what it needs to manifest | detected by |", "|---|---|---|---|"]
for d in sorted(glob.glob('/verif/seeded/*/')):
    m = json.load(open(os.path.join(d, 'meta.json')))
    name = os.path.basename(os.path.dirname(d))
    esc = lambda s: s.replace('|', '\\|').replace('\n', ' ')
    rows.append("| `%s` | %s | %s | %s |" % (name, m['property'], esc(m['needs_to_manifest']), esc(m['detected_by'])))
table = "<!-- SEEDTABLE-BEGIN -->\n" + "\n".join(rows) + "\n<!-- SEEDTABLE-END -->"
p = '/verif/DESIGN.md'
s = open(p).read()
if 'SEEDTABLE-BEGIN' in s:
    s = re.sub(r'<!-- SEEDTABLE-BEGIN -->.*?<!-- SEEDTABLE-END -->', lambda _: table, s, flags=re.S)
else:
    s = s.replace('SEEDTABLE', table, 1)
open(p, 'w').write(s)
print(len(rows) - 2, "seeds")
