#!/bin/bash
# tools/runall.sh [quick|thorough] [ids...]: runs the registered checks and prints one line each
tier=${1:-quick}; shift
ids="$@"; [ -z "$ids" ] && ids="C01 C02 C03 C04 C05 C06 C07 C08 C09 C10 C11 C12 C13 C14 C15 C16 C17"
cd "${VERIF_DIR:-/verif}"
for c in $ids; do
  s=$(date +%s)
  out=$(./check $c $tier 2>&1); rc=$?
  e=$(date +%s)
  echo "$c $tier exit=$rc $((e-s))s $(echo "$out" | tail -1 | sed 's/^\[[^]]*\] //')"
  echo "$out" | grep -E "VIOLATION|MACHINERY|SPURIOUS|DISAGREEMENT|NOT REACHED|^NOTE|KNOWN-FINDING" | cut -c1-160 | sed 's/^/    /'
done
