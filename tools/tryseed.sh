#!/bin/bash
# tools/tryseed.sh <seed-dir> [check ids...]
#   seed-dir holds patch.diff and a demonstration (zz_demo_test.go).
# 1. confirms in a scratch worktree of /repo: builds with the patch, pinned suite passes with the patch,
#    demonstration fails with the patch and passes without it;
# 2. applies the patch to /repo, runs the given checks (quick tier), and undoes it straight afterwards.
export PATH=/opt/veriftools/go1.26.8/bin:$PATH GOTOOLCHAIN=local GOFLAGS=-mod=mod GOPROXY=off GOSUMDB=off
seed=$(readlink -f "$1"); shift
wt=$(mktemp -d /tmp/seedwt.XXXXXX)
rmdir "$wt"
git -C /repo worktree add -q --detach "$wt" HEAD || exit 2
cleanup() { git -C /repo worktree remove --force "$wt" 2>/dev/null; rm -rf "$wt"; }
trap cleanup EXIT
cd "$wt" || exit 2
demo=$(ls "$seed"/*_test.go 2>/dev/null | head -1)
echo "== demonstration without the change"
[ -n "$demo" ] && cp "$demo" "$wt/zz_demo_test.go"
if [ -n "$demo" ]; then go test -vet=off -count=1 -run 'TestDemo' . >/tmp/seed_demo_clean.log 2>&1; echo "   demo on clean tree: exit $?"; fi
echo "== with the change"
git apply "$seed/patch.diff" || { echo "patch does not apply"; exit 2; }
go build . ./markdown ./cmd/gtree; echo "   build: exit $?"
go test -vet=off -count=1 ./markdown >/dev/null 2>&1; a=$?
go test -vet=off -count=1 -run '^(TestGenerate.*|TestNode_.*|TestStack_.*)$' . >/dev/null 2>&1; b=$?
echo "   pinned suite: exit $a/$b"
if [ -n "$demo" ]; then go test -vet=off -count=1 -run 'TestDemo' . >/tmp/seed_demo_patched.log 2>&1; echo "   demo with the change: exit $?"; fi
cd "${VERIF_DIR:-/verif}"
if [ $# -gt 0 ]; then
  if [ -n "$ON_REPO" ]; then
    echo "== checks on /repo with the change applied"
    git -C /repo apply "$seed/patch.diff" || exit 2
  else
    echo "== checks on the patched scratch worktree (VERIF_REPO=$wt; evidence goes to /tmp/verif-dev)"
    rm -f "$wt/zz_demo_test.go"
    export VERIF_REPO="$wt"
  fi
  for c in "$@"; do
    out=$(./check "$c" ${TIER:-quick} 2>&1); rc=$?
    echo "   $c ${TIER:-quick}: exit $rc  $(echo "$out" | grep -E 'VIOLATION|MACHINERY' | head -2 | tr '\n' ' ')"
    echo "$out" | grep -E "confirmed on the real build|real build fails|SPURIOUS|reproduced on the real runtime" | head -4 | sed 's/^/      /'
  done
  if [ -n "$ON_REPO" ]; then git -C /repo checkout -- . ; git -C /repo status --short; fi
fi
