#!/bin/bash
# Runs the repository's own tests on a scratch copy of /repo's working tree (tests create directories in cwd):
#   pinned: the 57 baseline tests;  all: everything except the test that panics on the pinned tree itself.
export PATH=/opt/veriftools/go1.26.8/bin:$PATH GOTOOLCHAIN=local GOFLAGS=-mod=mod GOPROXY=off GOSUMDB=off
src=${REPO:-/repo}
d=$(mktemp -d /tmp/repotest.XXXXXX)
trap 'rm -rf "$d"' EXIT
rsync -a --exclude .git "$src"/ "$d"/
cd "$d" || exit 2
rc=0
go build ./... 2>&1 | grep -v "syscall/js\|gtree-wasm" ; 
echo "== pinned"
go test -vet=off -count=1 ./markdown || rc=1
go test -vet=off -count=1 -run '^(TestGenerate.*|TestNode_.*|TestStack_.*)$' . || rc=1
if [ "$1" = "all" ]; then
  echo "== all (leftover root* directories of the snapshot removed first: the mkdir tests panic when they exist)"
  find . -maxdepth 1 -type d -name 'root*' -exec rm -rf {} +
  go test -vet=off -count=1 . 2>&1 | grep -E "^(--- FAIL|    --- FAIL|FAIL|ok|panic)" || true
fi
exit $rc
