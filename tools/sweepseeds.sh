#!/bin/bash
# tools/sweepseeds.sh [seed-name-pattern]: re-runs every recorded seeded change (scratch worktree, VERIF_REPO) against the
# checks named in its meta.json (detected_by: "Cxx quick"), one line per seed: DETECTED (some check exits 1),
# UNDECIDED (exit 2 only) or MISSED (all exit 0).
# Expected MISSED: s185 (needs a writer outside io.Writer's contract, outside C14's stated model; DESIGN.md section 10); open misses: s187, s188, s189.
V="${VERIF_DIR:-/verif}"
cd "$V" || exit 2
for d in seeded/${1:-s}*/; do
  name=$(basename "$d")
  checks=$(python3 -c "
import json,re,sys
m=json.load(open('$d/meta.json'))
ids=re.findall(r'(C\d\d) quick', m['detected_by'])
seen=[]
for i in ids:
    if i not in seen: seen.append(i)
print(' '.join(seen[:3]) or m['property'])")
  out=$(tools/tryseed.sh "$d" $checks 2>&1)
  verdict=MISSED
  echo "$out" | grep -q "quick: exit 2" && verdict=UNDECIDED
  echo "$out" | grep -q "quick: exit 1" && verdict=DETECTED
  echo "$name [$checks] $verdict $(echo "$out" | grep -E 'quick: exit' | sed 's/ *VIOLATION.*//' | tr -s ' ' | tr '\n' ';')"
done
