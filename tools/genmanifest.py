#!/usr/bin/env python3
"""Regenerates /verif/MANIFEST.json from the table below (kept in one place so the manifest is always valid)."""
import json

ENV = "PATH=/opt/veriftools/go1.26.8/bin:$PATH GOTOOLCHAIN=local GOFLAGS=-mod=mod GOPROXY=off GOSUMDB=off"
TECH = "SMT-based bounded symbolic execution of go/ssa (z3 decides PC ∧ ¬assertion per path); counterexample replay on the real build"

# id -> (level text, level note, design ref)
CLAIMED = {
    "C01": ("bounded symbolic model checking of the real OutputFromMarkdown code (both simple routes): for every forest shape up to the row bound, with names and the four branch strings as unconstrained solver strings, z3 shows output != reference rendering unsatisfiable on every path",
            "trusted: bufio.Scanner line contract, fmt.Fprint as concatenation + one Write, Parser.Parse contract at tree level (itself discharged at byte level by the L-parse jobs of C15); bound = number of rows",
            "DESIGN.md 5 C01"),
    "C02": ("bounded symbolic model checking of accept/reject: documents with unconstrained depths (level jumps, indented first row) and one malformed row of each class at every position; z3 decides err != nil <=> some row offends, that a format error names the first offending row, and that an accepted document is rendered completely",
            "trusted: as C01; malformation classes at byte level (no bullet, empty text, bad indentation, mixed tabs/spaces) are decided by the L-parse jobs of C15; bound = number of rows, one malformed row per document",
            "DESIGN.md 5 C02"),
}

NOT_YET = "check under construction in this session (engine built first; see DESIGN.md 5)"

def main():
    props = [json.loads(l) for l in open('/verif/properties.jsonl')]
    checks = []
    na = []
    for p in props:
        pid = p["id"]
        if pid in CLAIMED:
            text, note, ref = CLAIMED[pid]
            checks.append({
                "property_id": pid,
                "quick_cmd": f"./check {pid} quick",
                "thorough_cmd": f"./check {pid} thorough",
                "evidence_file": f"/verif/evidence/{pid}.json",
                "replay_cmd_template": "./check replay {path}",
                "engine": "gosym",
                "level_claimed": {"category": "model_checking", "text": text, "design_ref": ref},
                "level_note": note,
                "technique": TECH,
            })
        else:
            na.append({"property_id": pid, "reason": NOT_YET})
    man = {
        "version": 1,
        "setup_cmd": f"cd /verif/engine && {ENV} go build -o /verif/bin/gosym .",
        "hooks": {
            "guard": "verif",
            "enable": "no source hooks: harnesses are injected through go/packages Overlay (engine) and go test -overlay (native replay) as //go:build verif files; nothing is written into /repo",
            "baseline_off_cmd": f"cd /repo && {ENV} go test -vet=off -count=1 ./markdown && {ENV} go test -vet=off -count=1 -run '^(TestGenerate.*|TestNode_.*|TestStack_.*)$' .",
            "source_commits": [],
            "add_only": True,
        },
        "engines": [{
            "name": "gosym", "path": "/verif/engine", "serves_properties": sorted(CLAIMED),
            "kind_free_text": "bounded symbolic executor for go/ssa (SSA of /repo rebuilt on every run) with z3 4.8.12 / 5.1 as the deciding step; models replayed natively against the real build",
        }],
        "checks": checks,
        "not_applicable": na,
        "notes": "see DESIGN.md; known findings in known_findings.txt; seeded changes in seeded/",
    }
    json.dump(man, open('/verif/MANIFEST.json', 'w'), indent=1, ensure_ascii=False)
    print("claimed:", sorted(CLAIMED), "not applicable:", [x["property_id"] for x in na])

if __name__ == "__main__":
    main()
