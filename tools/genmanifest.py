#!/usr/bin/env python3
"""Regenerates /verif/MANIFEST.json from the table below (kept in one place so the manifest is always valid)."""
import json

ENV = "PATH=/opt/veriftools/go1.26.8/bin:$PATH GOTOOLCHAIN=local GOFLAGS=-mod=mod GOPROXY=off GOSUMDB=off"
TECH = "SMT-based bounded symbolic execution of go/ssa (z3 decides PC ∧ ¬assertion per path); counterexample replay on the real build"

# id -> (level text, level note, design ref)
CLAIMED = {
    "C01": ("bounded symbolic model checking of the real OutputFromMarkdown code (both simple routes): for every forest shape up to the row bound, with names and the four branch strings as unconstrained solver strings, z3 shows output != reference rendering unsatisfiable on every path",
            "trusted: bufio.Scanner line contract, fmt.Fprint as concatenation + one Write, Parser.Parse contract at tree level (itself discharged at byte level by the L-parse jobs of C15); bound = number of rows; additionally one node of 15..18 children with a repeated name (sizes around which an index or a fixed array could sit), real parser",
            "DESIGN.md 5 C01"),
    "C02": ("bounded symbolic model checking of accept/reject: documents with unconstrained depths (level jumps, indented first row) and one malformed row of each class at every position; z3 decides err != nil <=> some row offends, that a format error names the first offending row, and that an accepted document is rendered completely",
            "trusted: as C01; malformation classes at byte level (no bullet, empty text, bad indentation, mixed tabs/spaces) are decided by the L-parse jobs of C15; bound = number of rows, one malformed row per document",
            "DESIGN.md 5 C02"),
    "C03": ("bounded symbolic model checking of a relational property: symbolic programs of NewRoot/Add (solver-chosen parents, names that may coincide) and the Markdown spelling of the same tree are run through both API families on the same symbols and z3 decides equality of text (opaque branch strings), encoded records, walk and iterator traces; aliases agree; nil / non-root arguments are rejected with the sentinel errors before any write, callback or file-system call",
            "trusted: Parse contract, path contracts, encoder stubs, file-system model (see assumptions in the evidence); bound = number of Add calls",
            "DESIGN.md 5 C03"),
    "C04": ("bounded symbolic model checking of the tree -> {value, children} conversion (the real toFormattedNode instantiations and the one-Encode-per-root loops of both API families) against the reference forest; the encoder libraries themselves are stubs",
            "the bytes produced by encoding/json, yaml.v3 and go-toml (quoting of hostile names) cannot be encoded (reflection) and are outside the solver's claim; the native replays decode the real bytes of the solver's models with the real decoders, and on every run a fixed alphabet of 46 hostile names (quotes, YAML indicators, control characters, U+2028, HTML characters, null/true/1e3-like words, outer blanks) goes through JSON/YAML/TOML of both families and massive JSON on the real build and is decoded back (contract validation of the stub: concrete, not a solver verdict)",
            "DESIGN.md 5 C04"),
    "C05": ("bounded symbolic model checking of the walkers: every visit's Name/Branch/Row/Level/Path/HasChild equals the reference facts in text-output order for every forest up to the bound with opaque names and branch strings; the callback fails / the consumer breaks at a symbolic visit index and z3 decides that nothing is visited afterwards and the error is returned unchanged; the iterator forms run the real iter.Pull2 code",
            "trusted: Parse contract, path.Join contract on single-element names, iter.newcoro/coroswitch as coroutine hand-off; bound = number of nodes; additionally chains of 32..35 (thorough 30..70) levels with a side child, real parser: the visits are exactly the lines of the text output",
            "DESIGN.md 5 C05"),
    "C13": ("bounded symbolic model checking over call histories: every sequence of Add / second NewRoot / unrelated From-Markdown call / From-Root operation up to the length bound, with the package-level index counter as ordinary global state; z3 decides that each result equals the reference rendering of the tree's current model and that repeating an operation repeats its result; a second family runs two library calls concurrently in interpreted goroutines and decides result equality with the calls run alone plus absence of happens-before races",
            "sequential histories: bound = history length, two live trees; options handed over as two slices of one backing array; a step may be a From-Markdown output into a refusing writer; the history's operation kind is text / walk / iterator / JSON, or (jobs of their own) the dry-run report, the dry run with an encode option, the JSON record through the massive pipeline; one node of 15..18 children with a repeated name. Concurrent use: two simultaneous library calls (8 kinds each) on inputs of their own under write-yield / LIFO / pseudo-random schedules, real bufio.Scanner and a model of sync.Pool: results equal the calls run alone, and a happens-before (vector-clock) detector over the interpreted execution finds no unsynchronised conflicting accesses in library code; more than two concurrent calls and mkdir/verify as concurrent steps are outside",
            "DESIGN.md 5 C13"),
    "C14": ("bounded symbolic model checking with the fault position as a symbolic variable: the reader fails after k rows / the writer refuses write j (k, j solver-chosen) on every forest up to the bound and every sequential output mode of both API families; z3 decides that the reader's error is returned (errors.Is) and that nil is returned only if the writer accepted the complete output",
            "trusted: bufio.Scanner/bufio.Writer contracts, encoder stubs perform one Write per Encode (the real yaml/toml encoders may split writes; covered only by native replays); short writes with nil error not modelled; massive-mode reader failures (k = 0 included, FIFO/LIFO/random schedules) and writer failures are part of this check; the failure value is solver-chosen among a fresh error, context.Canceled, context.DeadlineExceeded and an error that wraps io.EOF; reader-failure jobs keep the reader's failure the only failure of the call",
            "DESIGN.md 5 C14"),
    "C12": ("bounded symbolic model checking at byte level: every document of 1-2 rows of a few arbitrary bytes is run through the real parser and every sequential entry point; an interpreted panic or an exceeded step budget on any feasible path is a violation, and z3 decides that blank-only input gives empty output and nil; panic-freedom is also built into every harness of every other property",
            "bound on row count/length with every byte arbitrary is small (byte-level path explosion); additionally long structured rows (prefix + 30/100 units of 1-, 2-, 3-byte characters or invalid bytes + one arbitrary byte) and the scanner's line limit on the real bufio.Scanner (65535 bytes fit, 65536 do not) on simple and massive routes; file system is the harness model, on the mkdir/verify routes also with the target directory being a regular file (every Stat below it fails with an error other than 'does not exist')",
            "DESIGN.md 5 C12"),
    "C15": ("bounded symbolic model checking of the notation family in two layers: the L-parse lemmas run the real Parser.Parse from every state an accepted prefix can leave, on rows whose name bytes are symbolic, and z3 decides that every spelling of a row yields the same (depth, text) resp. the right error class; an end-to-end harness (real parser + real tree code, no stub) compares the canonical spelling with every member of the notation family on small forests",
            "CRLF / final newline: the real bufio.Scanner, ScanLines and strings.Reader are executed from std's SSA (L-scan lemma on documents of <= 7 arbitrary bytes; end-to-end jobs with LF/CRLF per row, missing last terminator, trailing empty lines, also through massive mode); heading names assumed free of surrounding blanks; name length <= 3 bytes in the lemmas; outputs other than text rely on C01-C05 (same generator)",
            "DESIGN.md 5 C15, 4.2"),
    "C06": ("bounded symbolic model checking of the mkdir code against a file-system model executed symbolically next to it: for every forest up to the bound, opaque names and extensions, every pre-state of the family and the modelled OS refusals, z3 decides that the entries created are exactly the node paths with kinds by the file rule, that nothing else changes, that a pre-existing root gives ErrExistPath with the state unchanged and that a refused operation is never reported as success",
            "the file-system model (harness/gtree/vfs_sym.go) is the trusted reading of os.Stat/MkdirAll/Create; path contracts; the native replays run the same harness against the real OS in a jail; forests with distinct roots, and (C06.dup) forests whose root names may coincide; a pre-existing root is a directory, a file, a symbolic link to a directory or a symbolic link to nothing; refusals: over-long name, target is a regular file, target is a symbolic link to nothing",
            "DESIGN.md 5 C06"),
    "C07": ("bounded symbolic model checking at byte level: every name byte of a 2-3 node tree is a solver variable, the real path.Join/Clean, filepath.Join, fs.ValidPath and validation code is executed on them, and z3 decides that every path handed to a mutating os call is lexically inside the target, that a name which is not a single valid path element is rejected, and that nothing is created in that case, on all five mkdir/dry-run routes",
            "byte-level jobs: lexical confinement, ASCII names of <= 4 bytes, <= 3 nodes, os calls are recorders; confinement against what is on disk is a tree-level job on the file-system model (C07.links: at one root's path a symbolic link to a directory outside the target or to nothing, valid names, all five Mkdir entry points: nothing is made or changed through the link); links deeper in the tree or at the target itself are outside",
            "DESIGN.md 5 C07"),
    "C08": ("bounded symbolic model checking of the verifier against the file-system model: for every forest up to the bound and every directory state of the family (present subsets, files, extras, strict or not) z3 decides verdict, soundness and exactness of both reported lists for the first differing root, the public error text and read-only-ness; and that a tree just made by the real Mkdir code verifies strictly",
            "file-system model incl. the fs.WalkDir / filepath.WalkDir contracts is trusted (exercised natively); the first root may be a symbolic link to a directory (Stat-following operations see a directory, an Lstat-based walk does not descend); bound N=3 for the state-space job; a present node may be a regular file although the tree gives it children; byte-level jobs (names of 1..2 bytes over a 4-letter alphabet, real filepath code) list every directory in the real lexical order; the target directory as a regular file or absent (every Verify entry point must return non-nil)",
            "DESIGN.md 5 C08"),
    "C09": ("bounded symbolic model checking of the three dry-run routes against the real mkdir code in one harness: no mutation, report text equals tree text plus per-root counts, and the counts equal what the real Mkdir then creates in the same model; names-based rejection equivalence is decided at byte level under C07",
            "file-system model, color/bufio stubs; target directory present or missing, default or four opaque branch strings, every call with its own copy of the extension list (which may hold duplicates); an encode option in front of or behind WithDryRun in the same call; massive mode under C10",
            "DESIGN.md 5 C09"),
    "C10": ("bounded symbolic model checking of the real pipeline code next to the real simple-mode code on the same symbolic documents: goroutines, channels, select, WaitGroup, Mutex, context and errgroup are interpreted under a deterministic cooperative scheduler (several policies), and z3 decides same accept/reject decision and equality of results up to the order of roots (whole per-root blocks) for text, JSON, dry-run, walk, mkdir and verify; a byte-level job decides the unit-learning difference, another the pre-existing-root case",
            "the input and configuration quantifiers are decided; the schedule quantifier only over the explored policies (each a legal Go schedule) - equality under every schedule is NOT claimed; data races of the pipeline are decided under C11 (happens-before detector on this harness family); two known findings (mixed indentation units per block, partial mkdir when a root exists) are listed in known_findings.txt; root blocks larger than a bufio.Writer buffer (5000-byte names) under the write-yield policy, confirmed natively by an amplified scenario",
            "DESIGN.md 5 C10, 3.6"),
    "C11": ("bounded symbolic model checking of termination, error reporting and goroutine leaks of the real pipeline under the engine's scheduler: failing subsets of blocks in every stage, a failing reader, and cancellation of the caller's context at a symbolic synchronisation event; a blocked main goroutine with nothing runnable is reported as deadlock, after the return every runnable goroutine is run to quiescence and survivors are counted, and a vector-clock happens-before detector checks every load/store/map access/append of library code for unsynchronised conflicting accesses",
            "schedules: FIFO/LIFO x first/last ready select case and 4-8 pseudo-random ones only (each a legal Go schedule; all schedules are NOT claimed); read-yield schedules for cancellation inside one long block (at most one more row read after the return); 11..12 failing and 12..14 good blocks (more than a stage has workers and buffers). Data-race clause: every job runs with a happens-before (vector-clock, FastTrack-style) detector over the interpreted execution -- go, channels, select, Mutex, WaitGroup, errgroup, context, sync/atomic, sync.Pool are the synchronisation edges; a pair of unordered conflicting accesses in library code on an explored schedule is reported as race@<op> and confirmed on a -race build of the native harness (model, then the amplified scenario VerifRaceStress); sequential consistency is assumed for the values read (no weak-memory effects), memory touched only inside host-level stubs (encoders, color) is not tracked",
            "DESIGN.md 5 C11, 3.6"),
    "C16": ("bounded symbolic model checking of the CLI's flag-to-option wiring and exit-status logic: the three action functions and main() are executed with every flag value symbolic; the options they pass are applied by the real gtree.newConfig and z3 decides that the resulting configuration, writer and reader are what the flags denote, that every failure surfaces as a non-zero ExitCoder and success as nil, and that main exits non-zero exactly when App.Run failed",
            "library entry points, urfave/cli's parser, os.Open/Exit and the standard streams are stubs (contracts listed in the evidence); what the library does with the options is C01-C15; models of these jobs (witnesses and counterexamples) are replayed by a concrete CLI-vs-library differential run (engine/clireplay.go + replay/cliref: stdout, exit status, file-system snapshot, also with stdout=/dev/full); the App.Run stub's contract (usage failure => error or non-zero exit) is validated on the real binary (the template action is inside the encoding: fmt.Print/Println with a stdout that accepts or refuses each write) for every class of usage failure (stray argument, unknown flag, unknown sub-command, unknown help topic, missing flag value, invalid duration) on every run -- that part is a concrete contract validation, not a solver verdict",
            "DESIGN.md 5 C16"),
    "C17": ("bounded symbolic model checking of a two-variant relational property: the tinywasm file set is regenerated from /repo as a second package of the same SSA program, both Output implementations run on the same symbolic documents and options, and z3 decides equal accept/reject decisions and equal output (text with opaque branch strings, JSON record, dry-run report)",
            "the tinywasm constraint is emulated by file selection (same files the Go tool would select); Parse contract; encoder stubs incl. the documented effect of encoder settings; byte-level names through the real path code; rows at the scanner's line limit and LF/CRLF spellings of small forests through the real line splitting of both variants; a writer that refuses its first write in every comparison and a healthy call after the refused one; the dry run combined with an encode option; a 1.2 MB document; bound = rows",
            "DESIGN.md 5 C17"),
}

TECH_EXTRA = {
    "C11": "; goroutines interpreted under deterministic schedule policies; happens-before (vector-clock) data-race detection on the explored paths, confirmed by the Go race detector on the native harness",
    "C13": "; the concurrent-use family runs two calls in interpreted goroutines with happens-before (vector-clock) data-race detection, confirmed by a native stress scenario / the Go race detector",
    "C10": "; goroutines interpreted under deterministic schedule policies",
    "C16": "; models replayed by a concrete CLI-vs-library differential run, which also validates the cli-library stub's contract on usage failures",
}

NOT_YET = "check under construction in this session (engine built first; see DESIGN.md 5)"

def main():
    props = [json.loads(l) for l in open('/verif/properties.jsonl')]
    checks = []
    na = []
    for p in props:
        pid = p["id"]
        if pid in CLAIMED:
            text, note, ref = CLAIMED[pid]
            checks.append({
                "property_id": pid,
                "quick_cmd": f"./check {pid} quick",
                "thorough_cmd": f"./check {pid} thorough",
                "evidence_file": f"/verif/evidence/{pid}.json",
                "replay_cmd_template": "./check replay {path}",
                "engine": "gosym",
                "level_claimed": {"category": "model_checking", "text": text, "design_ref": ref},
                "level_note": note,
                "technique": TECH + TECH_EXTRA.get(pid, ""),
            })
        else:
            na.append({"property_id": pid, "reason": NOT_YET})
    man = {
        "version": 1,
        "setup_cmd": f"cd /verif/engine && {ENV} go build -o /verif/bin/gosym .",
        "hooks": {
            "guard": "verif",
            "enable": "no source hooks: harnesses are injected through go/packages Overlay (engine) and go test -overlay (native replay) as //go:build verif files; nothing is written into /repo",
            "baseline_off_cmd": f"cd /repo && {ENV} go test -vet=off -count=1 ./markdown && {ENV} go test -vet=off -count=1 -run '^(TestGenerate.*|TestNode_.*|TestStack_.*)$' .",
            "source_commits": [],
            "add_only": True,
        },
        "engines": [{
            "name": "gosym", "path": "/verif/engine", "serves_properties": sorted(CLAIMED),
            "kind_free_text": "bounded symbolic executor for go/ssa (SSA of /repo rebuilt on every run) with z3 4.8.12 / 5.1 (cvc5 1.0 for some models and for cross-checks) as the deciding step; interpreted goroutines under deterministic schedule policies with a vector-clock happens-before race detector; models replayed natively against the real build (also on a -race build)",
        }],
        "checks": checks,
        "not_applicable": na,
        "notes": "see DESIGN.md; known findings in known_findings.txt; seeded changes in seeded/",
    }
    json.dump(man, open('/verif/MANIFEST.json', 'w'), indent=1, ensure_ascii=False)
    print("claimed:", sorted(CLAIMED), "not applicable:", [x["property_id"] for x in na])

if __name__ == "__main__":
    main()
